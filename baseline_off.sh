#!/bin/bash
# Runs the repository's stable baseline (56 tests) with the verification hooks OFF
# (cargo feature `inkayaku_verif` is not enabled by a plain workspace test run).
# exit 0 iff every test listed as stable_pass in /root/.vp/BASELINE.json passes.
set -u
cd /repo
export CARGO_NET_OFFLINE=true
LOG=$(mktemp)
if cargo nextest --version >/dev/null 2>&1; then
  cargo nextest run --workspace --no-fail-fast --tool-config-file pb:/verif/lib/nextest.toml --profile pb --test-threads 8 --offline >"$LOG" 2>&1
  JUNIT=/repo/target/nextest/pb/junit.xml
  python3 - "$JUNIT" <<'PY'
import json, sys, xml.etree.ElementTree as ET
want = json.load(open('/root/.vp/BASELINE.json'))['stable_pass']
root = ET.parse(sys.argv[1]).getroot()
status = {}
for suite in root.iter('testsuite'):
    sname = suite.get('name')
    for tc in suite.iter('testcase'):
        ok = tc.find('failure') is None and tc.find('error') is None
        cls = tc.get('classname') or sname
        status[cls.replace('-', '_') + '::' + tc.get('name')] = ok
        status[sname.replace('-', '_') + '::' + tc.get('name')] = ok
missing = [t for t in want if t not in status]
failed = [t for t in want if status.get(t) is False]
print(f"baseline (hooks off): {len(want) - len(missing) - len(failed)}/{len(want)} passed, {len(failed)} failed, {len(missing)} missing")
for t in failed: print("  FAILED", t)
for t in missing: print("  MISSING", t)
sys.exit(0 if not failed and not missing else 1)
PY
  RC=$?
else
  cargo test --workspace --no-fail-fast --offline >"$LOG" 2>&1
  # fallback: the four always-failing tests make the exit code non-zero; check by name
  python3 - "$LOG" <<'PY'
import json, re, sys
want = json.load(open('/root/.vp/BASELINE.json'))['stable_pass']
log = open(sys.argv[1]).read()
ok = set(re.findall(r'^test (\S+) \.\.\. ok', log, re.M))
short = lambda t: t.split('::', 1)[1]
failed = [t for t in want if short(t) not in ok]
print(f"baseline (hooks off, cargo test fallback): {len(want) - len(failed)}/{len(want)} passed")
for t in failed: print("  NOT-OK", t)
sys.exit(0 if not failed else 1)
PY
  RC=$?
fi
[ $RC -ne 0 ] && tail -40 "$LOG"
rm -f "$LOG"
exit $RC
