#!/bin/bash
# usage: lib/sweep_seeds.sh [pattern] : tries every kept seeded change against the quick check of its property
cd /verif
for d in seeded/${1:-*}/; do
  id=$(basename $d); prop=$(python3 -c "import json;print(json.load(open('$d/meta.json'))['property'])")
  res=$(lib/try_patch.sh $d/patch.diff $prop 2>&1 | tail -1 | cut -c1-200)
  echo "$id :: $res"
done
