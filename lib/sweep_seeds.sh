#!/bin/bash
# usage: lib/sweep_seeds.sh [glob ...] : tries kept seeded changes against the quick check that is expected
# to catch them (first entry of meta.json checks.caught_by_quick; normally the seed's own property).
# MUT_DIR / MUT_OUT are passed on to lib/try_patch.sh (parallel sweeps need separate scratch dirs).
cd /verif
[ $# -eq 0 ] && set -- '*'
for pat in "$@"; do
for d in seeded/$pat/; do
  [ -f "$d/meta.json" ] || continue
  id=$(basename $d); prop=$(python3 -c "import json;m=json.load(open('$d/meta.json'));c=m['checks'].get('caught_by_quick') or [m['property']];print(c[0] if m['property'] not in c else m['property'])")
  res=$(lib/try_patch.sh $d/patch.diff $prop 2>&1 | tail -1 | cut -c1-200)
  echo "$id :: $res"
done
done
