"""Per-property configuration of the driver: which monitor, which lanes, coverage floors, and the
words that go into the evidence file."""

BASE_ASSUME = [
    "refchess (independent mailbox chess model written for this task; self-tested against published perft counts, textbook SAN cases and hand-decoded FENs in setup.sh and at the start of every run) is the oracle",
    "the Rust standard library and the rand crate (workload generation only)",
    "hook accessors behind cargo feature inkayaku_verif are thin (they call the same private functions the engine uses)",
    "held on the executions listed under coverage only - sampled unless coverage.exhaustive is true",
]

STREAM = ("positions visited by reference-chosen random walks (uniform / shuffle-biased / tactical move policies) from ~80 seed FENs and their colour-flipped twins, "
          "synthesised random-material positions and king+attacker constructions, with half-move clocks up to 4095 and full-move numbers up to 30000; ")

PROPS = {
    "C01": dict(
        crate="mon_board", cmd="c01", level="exploration",
        lanes={"quick": ["asan"], "thorough": ["asan", "miri"]},
        asan_scale={"quick": 0.25, "thorough": 0.05},
        miri_jobs=[{"cmd": "c01", "args": ["--scale", "0.001", "--shard", str(i), "--nshards", "16"], "timeout": 2400} for i in range(16)],
        floors={"quick": {"castle_rights_subset_*": 16, "castle_wK_ThroughCheck": 1, "castle_wQ_ThroughCheck": 1, "castle_bK_ThroughCheck": 1, "castle_bQ_ThroughCheck": 1,
                          "castle_wK_Blocked": 1, "castle_bQ_Blocked": 1, "castle_wK_InCheck": 1, "castle_bK_InCheck": 1,
                          "castle_wK_Available": 1, "castle_wQ_Available": 1, "castle_bK_Available": 1, "castle_bQ_Available": 1,
                          "ep_legal_w": 1, "ep_legal_b": 1, "ep_refused_rank_pin": 1, "ep_refused_other_pin": 1, "ep_legal_as_check_evasion": 1,
                          "promo_w_n_push": 1, "promo_b_n_push": 1, "promo_w_r_capture": 1, "promo_b_b_capture": 1,
                          "double_check": 1, "mate": 1, "stalemate": 1, "pinned_piece_move_refused": 1, "perft_samples": 10}},
        rule=STREAM + "at every position the move sets of generate_legal_moves, of the pseudo-legal generator + make/is_valid/unmake filter and of the capture/promotion generator are compared with the reference, "
             "plus per-root-move perft counts at sampled positions; distinct_nontrivial = distinct reference position keys where castling was available or refused, e.p. was available or refused, a promotion was possible, the side to move was in check, or a pinned piece's move was refused",
        assumptions=BASE_ASSUME,
    ),
    "C02": dict(
        crate="mon_board", cmd="c02", level="exploration",
        floors={"quick": {"kind_castle": 50, "kind_ep": 20, "kind_promotion": 100, "rights_changed": 100, "rook_captured_on_home_square": 5, "halfmove_ge_128": 100, "fullmove_ge_2500": 100}},
        rule=STREAM + "at every position every legal move is made on a freshly loaded board and the FEN written by the code is compared field by field with the reference successor; "
             "distinct_nontrivial = distinct (position key, move) pairs whose move is castling, e.p., a promotion, changes castling rights or resets the half-move clock",
        assumptions=BASE_ASSUME,
    ),
    "C03": dict(
        crate="mon_board", cmd="c03", level="exploration",
        floors={"quick": {"illegal_pseudo_legal_moves": 1000, "halfmove_ge_128": 1000, "kind_castle": 50, "kind_ep": 20, "kind_promotion": 100, "lines": 500, "clock_sweep_positions": 100}},
        rule=STREAM + "every pseudo-legal move the generator emits (illegal ones included) is made and unmade and the full snapshot (12 occupancy words, rights, e.p., clocks, turn, both hashes, FEN text) compared; "
             "whole reference lines of up to 64 moves (optionally ending in an illegal pseudo-legal move) made and unmade in reverse; half-move clock sweep on seed positions (quick: boundary set, thorough: 0..4095 exhaustively); "
             "distinct_nontrivial = distinct (key, move, clock bucket) with clock >= 128 or a castling / e.p. / promotion / rook-home-capture / illegal pseudo-legal move",
        assumptions=BASE_ASSUME,
    ),
    "C04": dict(
        crate="mon_board", cmd="c04", level="exploration",
        lanes={"quick": ["asan"], "thorough": ["asan", "miri"]},
        asan_scale={"quick": 1.0, "thorough": 1.0}, asan_shards=16,
        miri_jobs=[{"cmd": "c04", "args": ["--mask-only", "1", "--sq-lo", str(4 * i), "--sq-hi", str(4 * i + 4)], "timeout": 3000} for i in range(16)],
        floors={"quick": {"squares": 64, "leaper_entries": 256}},
        rule="complete enumeration: for each of the 64 squares all subsets of the reference's full rook / bishop ray set of that square (a superset of the 102,400 + 5,248 relevant-mask configurations), each once as-is and once OR-ed with a random pattern on non-ray squares, "
             "compared with a ray walk on (file, rank) pairs; raw index < table length checked through the hook before every lookup; all 4x64 leaper entries compared with clipped step patterns; the same enumeration repeated under AddressSanitizer (and, thorough, the mask-subset enumeration under Miri); "
             "distinct_nontrivial = distinct (piece, square, relevant occupancy) classes with at least one blocker + leaper entries",
        assumptions=BASE_ASSUME + ["ASan sees out-of-table reads only within its global red zones; the explicit index check and Miri have no such blind spot"],
    ),
    "C05": dict(
        crate="mon_board", cmd="c05", level="exploration",
        lanes={"quick": ["asan"], "thorough": ["asan", "miri"]},
        asan_scale={"quick": 0.25, "thorough": 0.05},
        miri_jobs=[{"cmd": "c05", "args": ["--scale", "0.0012", "--shard", str(i), "--nshards", "16"], "timeout": 2400} for i in range(16)],
        floors={"quick": {"mate_white_to_move": 20, "mate_black_to_move": 20, "stalemate_white_to_move": 5, "stalemate_black_to_move": 5, "positions_after_illegal_pseudo_legal_move": 1000,
                          "check_by_P": 10, "check_by_N": 10, "check_by_B": 10, "check_by_R": 10, "check_by_Q": 10, "synthesised_check_positions": 1000}},
        rule=STREAM + "plus a synthesiser placing a king and 1-3 attackers of every kind at every direction/distance with optional blockers, and low-material positions steered into mates; "
             "is_current_in_check / is_in_check(colour) / is_valid after every pseudo-legal move / emptiness of the legal move list / mate-vs-stalemate classification / the evaluator's terminal branch are compared with the reference attack scan; "
             "distinct_nontrivial = distinct position keys that are in check or have no legal move",
        assumptions=BASE_ASSUME,
    ),
    "C06": dict(
        crate="mon_board", cmd="c06", level="exploration",
        floors={"quick": {"delta_kind_castle": 20, "delta_kind_ep": 10, "delta_promotion_with_capture": 10, "delta_rights_change": 50, "transpositions_checked": 50, "same_key_observed_again": 50, "clock_variants": 100,
                          "variant_side": 100, "variant_ep-set": 5, "variant_ep-cleared": 5, "variant_piece-moved": 100, "variant_right-K": 10, "variant_right-q": 10}},
        rule=STREAM + "for every legal move: hash ^ zobrist_xor(move) vs the hash recomputed for the reference successor loaded from FEN (full and pawn hash) and vs the board after make; "
             "run-wide maps reference-key -> hash and hash -> key (same key observed via different histories / clocks / transposed move orders must hash equally, different keys differently); "
             "single-component variants (side, one castling right, e.p. file set/cleared/moved, one piece removed/moved/recoloured/retyped, king moved) must hash differently; "
             "distinct_nontrivial = distinct keys observed at least twice via different histories + distinct variant pairs",
        assumptions=BASE_ASSUME + ["a 64-bit collision between unrelated positions is reported as inconclusive, not as a violation"],
    ),
    "C12": dict(
        crate="mon_board", cmd="c12", level="exploration",
        lanes={"quick": [], "thorough": ["fuzz"]}, fuzz_target="fen", fuzz_seconds=120, fuzz_replay={"kind": "c12"}, fuzz_replay_key="string",
        fuzz_seeds=["rnbqkbnr/pppppppp/8/8/8/8/PPPPPPPP/RNBQKBNR w KQkq - 0 1", "r3k2r/8/8/3pP3/8/8/8/R3K2R w Kq d6 7 42", "8/8/8/8/8/8/8/K6k b - -", "4k3/8/8/8/8/8/8/4K2R w K - 130 90"],
        floors={"quick": {"positive_stream": 5000, "positive_four_field": 1000, "negative_mutant": 3000, "round_trips": 5000, "castle_rights_subset_*": 16, "unspecified_mutant": 100, "negative_random": 1000}},
        rule="positive: every stream position (all 16 castling-right sets, e.p. states, clocks up to u32::MAX) rendered by the reference writer in 6- and 4-field form must be accepted, decode square by square to the same position and be written back identically; "
             "negative: single/double character- and token-level mutants, targeted faults of each class the property lists and random UTF-8 strings, classified by the reference's strict reader as invalid (must be rejected), valid (treated as positive) or unspecified (only: no panic); "
             "every entry point (Fen::from_str, Fen::is_valid, Bitboard::from_fen_string, Fen::from(&Bitboard)) is wrapped in catch_unwind; thorough tier adds a coverage-guided lane (cargo-fuzz: libFuzzer + AddressSanitizer, 120 s, 8 forks) over a target carrying the same classification oracle; distinct_nontrivial = distinct accepted legal positions + distinct rejected strings",
        assumptions=BASE_ASSUME + ["strings whose status the property does not define (non-canonical castling order, e.p. rank other than 3/6, leading zeros, clocks wider than u32, full-move 0, 'startpos', odd white space) are only required not to panic"],
    ),
    "C13": dict(
        crate="mon_board", cmd="c13", level="exploration",
        also_build=["mon_engine"], extra_monitors=[{"crate": "mon_engine", "cmd": "c13e", "shards": 8}],
        floors={"quick": {"strings_legal": 10000, "strings_pseudo-legal-illegal": 300, "strings_other": 100000, "positions_with_complete_move_string_space": 40, "lists_with_fault": 300, "lists_all_legal": 100, "uci_to_pgn_calls": 5000, "pgn_to_bb_calls": 5000, "rejected_position_commands": 1000}},
        rule="at stream positions: all pseudo-legal moves, promotion strings with missing/wrong suffix, random squares, mutants and malformed strings are passed to find_uci and make_uci; verdict compared with reference legality, full snapshot compared before/after, successor compared with the reference; "
             "at sampled positions (all seeds first) the complete 64x64x{none,q,r,b,n,k} string space; make_all_uci on reference lines of 1-80 moves with one fault injected at a uniformly chosen index (illegal pseudo-legal move, other side's move, garbage, 0000) must be all-or-nothing, also when repeated; "
             "uci_to_pgn / pgn_to_bb with illegal, unknown or malformed arguments must leave the snapshot unchanged; engine boundary (the caller named in the property): after an accepted `position` command, a `position` command whose move list repeats the accepted moves, adds 0-3 legal moves and then a move that is not legal must leave the engine's position untouched (next `go depth 1` legal in the held position, depth-1 score and board dump equal to a fresh engine's); distinct_nontrivial = distinct position keys probed + distinct (position, fault index) pairs",
        assumptions=BASE_ASSUME + ["move strings padded with white space are trimmed by the code; their verdict is unspecified and only side effects are checked"],
    ),
    "C14": dict(
        crate="mon_board", cmd="c14", level="exploration",
        floors={"quick": {"disambiguation_file": 1000, "disambiguation_rank": 300, "disambiguation_both": 50, "suffix_stalemate": 20, "suffix_mate": 100, "suffix_check": 1000, "kind_castle": 50, "kind_ep": 10, "kind_promotion": 100, "foreign_san_probes": 1000}},
        rule=STREAM + "plus a synthesiser placing 2-4 like pieces (N/B/R/Q) attacking one square from same/different files and ranks with possible pinners, and low-material positions; "
             "for every legal move uci_to_pgn is compared with the reference SAN (FIDE C.10 disambiguation over legal moves, '#' only for checkmate), the standard text with and without check suffix must parse back to the same move, "
             "SAN text taken from other positions must yield Err or a legal move, never a panic or a side effect; distinct_nontrivial = distinct (position, move) pairs needing disambiguation, a suffix, or a special move",
        assumptions=BASE_ASSUME,
    ),
    "C15": dict(
        crate="mon_text", cmd="c15", level="exploration",
        lanes={"quick": [], "thorough": ["fuzz"]}, fuzz_target="uci", fuzz_seconds=120, fuzz_replay={"kind": "c15-line"}, fuzz_replay_key="line",
        fuzz_seeds=["go wtime 1 btime 2 winc 3 binc 4 movestogo 5 depth 6 nodes 7 mate 8 movetime 9 infinite ponder searchmoves e2e4 e7e8q", "position startpos moves e2e4 e7e5", "position fen r3k2r/8/8/3pP3/8/8/8/R3K2R w Kq d6 7 42 moves e5d6", "setoption name Hash value 128", "register name a b code c d", "debug on", "register later"],
        floors={"quick": {"positive_Go": 10000, "positive_Position": 10000, "positive_lines_with_more_than_512_moves": 500, "positive_SetOption": 1000, "positive_Register": 1000, "positive_Debug": 1000, "negative_*": 50000, "fuzz_lines": 50000, "move_round_trips": 28672}},
        rule="positive: abstract command values (all 12 command kinds; every subset and permutation of the twelve go parameters with values from {0,1,2,2^31,2^63-1,2^64-1,random}; position startpos / 4- and 6-field FENs with 0-200 reference-legal moves; multi-word option / registration names) rendered by the monitor's own writer with 1-5 spaces between tokens and optional leading/trailing space, parsed, and compared field by field with the value they were rendered from; "
             "negative: lines with one injected fault of a listed class (unknown / upper-case / non-ASCII first word, missing parameter, bad / negative / out-of-range number, bad move token, bad FEN, duplicated go parameter, unknown go token) must parse to Err; "
             "fuzz: random UTF-8, single and double mutants of valid lines, 1000-20000-move lines, and move tokens on their own must never panic; UciMove text round trip over all 64x64x7 values (exhaustive); thorough tier adds a coverage-guided lane (cargo-fuzz: libFuzzer + AddressSanitizer, 120 s, 8 forks) for the never-panics clause; distinct_nontrivial = distinct faulty lines + distinct go parameter orderings + distinct move texts",
        assumptions=BASE_ASSUME + ["over-long move tokens, tab separators, the null move 0000 in move lists, negative durations and trailing junk after complete commands are unspecified and only required not to panic"],
    ),
    "C17": dict(
        crate="mon_text", cmd="c17", level="exploration",
        floors={"quick": {"games": 5000, "castling_moves": 500, "databases_with_unnumbered_black_castling": 50, "games_without_comments": 1000, "games_with_comments": 1000, "result_*": 5000, "layout_final_newline_false": 200, "reader_mode_1": 1000, "reader_mode_2": 1000, "reader_mode_3": 1000, "games_replayed_on_board": 5000, "games_with_256_or_more_full_moves": 50, "games_from_setup_position": 2000, "replayed_moves_with_full_square_disambiguation": 50}},
        rule="databases of 1-12 games (reference walks from the start position, one game in six from a set-up position with [FEN]/[SetUp] tags in which two to four like pieces reach one square (movetext with file, rank and full-square disambiguation), SAN from the reference writer, 7-18 Lichess-style tag lines, no / clock / eval+clock / mixed comments with Lichess's `n...` numbering of Black's move after a comment, all four result tokens, with/without final newline, 1-2 blank lines between games) rendered by the monitor's writer; "
             "each database read under 20 (thorough: 40) reader configurations: chunk sizes {1,2,3,5,7,8,13,64,1000,8192,|D|-1,|D|,|D|+1} x readers that return full reads / random short reads / one byte at a time / short reads aligned just before or after every delimiter; "
             "yielded games compared with the written ones (count, tag map, SAN texts in order, exact comment text, no Err items), and replayed through pgn_to_bb + make to the reference end position; distinct_nontrivial = distinct (database, configuration) pairs with >= 2 games and >= 1 castling move",
        assumptions=BASE_ASSUME + ["tag values are ASCII without quotes; reader I/O errors are not injected"],
    ),
    "C19": dict(
        crate="mon_lichess", cmd="c19", level="exploration",
        floors={"quick": {"shape_gameFull": 5000, "shape_gameState": 5000, "shape_chatLine": 5000, "shape_opponentGone": 5000, "shape_gameStart": 5000, "shape_gameFinish": 5000, "shape_challenge": 5000, "shape_challengeCanceled": 5000, "shape_challengeDeclined": 5000,
                          "key_order_shuffled": 10000, "with_json_escapes": 10000, "documents_with_no_moves": 1000, "moves_decoded": 100000}},
        rule="JSON documents of the nine shapes rendered by the monitor's own writer from abstract messages: move lists from reference walks (0-300 moves, castling, promotions; empty string and missing field), every enumerated status / variant / speed / perf / source / decline-reason / direction / colour / room key, "
             "every optional field independently present / null / absent, numbers at the u32 edges, string values with JSON escapes (quote, backslash, newline, \\uXXXX incl. surrogate pairs, escaped slashes) and raw UTF-8, object keys in random order (type tag not first); "
             "decoded with serde_json::from_str::<BotGameState|BotEvent>, re-encoded with the derived Serialize and compared path by path with the source document (catches silently dropped fields), plus direct checks of moves / clocks / status and replay of the move list through UciMove::from_str and Bitboard::make_uci; "
             "distinct_nontrivial = distinct documents",
        assumptions=BASE_ASSUME + ["enumerated keys are generated in the model's own spelling (the public API documentation cannot be consulted offline); `rules` only in comma-separated string form with known rule names"],
    ),
    "C07": dict(
        crate="mon_engine", cmd="c07", level="exploration", needs_app=True,
        floors={"quick": {"go_depth": 300, "go_movetime": 150, "go_clock": 150, "go_infinite": 150, "go_with_searchmoves": 100, "go_without_new_position": 200, "roots_already_threefold": 30, "roots_occurred_twice": 10,
                          "mate_roots": 10, "stalemate_roots": 5, "roots_fullmove_above_2500": 50, "roots_fullmove_at_or_above_32766": 20, "cycles_following_bestmove_and_ponder_move": 100, "cycles_with_a_sibling_move_list": 50, "late_stops_after_the_answer": 100, "answered_via_app": 50, "answered_via_app-hooked": 20, "searches_interrupted": 100, "sessions": 100}},
        rule="sessions of 3-12 ucinewgame/position/go cycles on one engine instance: roots from reference walks of 0-120 moves from seeds (full-move numbers up to 30000), 15% with knight/king shuffle histories so that the root already occurred 2 or >=3 times, 5% mate/stalemate roots; "
             "go limits from {depth 1-4} u {movetime 0,1,2,5,50} u {wtime/btime in {0,1,50,1000,60000} x winc/binc in {absent,0,1,100}} u {infinite + stop after 0/50us/1ms/20ms/150ms}, 25% with searchmoves (random subset of legal moves, sometimes padded with illegal ones), 40% of cycles without a new position command; "
             "driven in-process (Engine<CommandUciTx>) with poll intervals {default,1000,5000,20000} and through the shipped binary (plain and hooked build) over pipes; bounded restatement of 'is answered': the answer arrives before a 120 s watchdog (else inconclusive if the search thread is alive, violation if it died); "
             "each answer judged against the reference position (legal / member of searchmoves / null move iff no legal move), bestmove count = go count after quit; distinct_nontrivial = distinct (root key, go text) pairs + distinct (iteration, abort node) pairs",
        assumptions=BASE_ASSUME + ["go nodes / go mate / go ponder / go depth 0 are not generated (not finite limits the engine implements); searchmoves always contains at least one legal move",
                                   "poll intervals below the size of a depth-1 iteration are not used: they would create interruptions the program cannot have"],
    ),
    "C08": dict(
        crate="mon_engine", cmd="c08", level="exploration",
        floors={"quick": {"value_searches_depth_1": 500, "value_searches_depth_2": 500, "value_searches_depth_3": 500, "forced_mate_in_1_white": 20, "forced_mate_in_1_black": 20, "forced_mate_in_2_white": 20, "forced_mate_in_2_black": 20, "forced_mate_in_3_*": 10,
                          "positive_mate_reports": 200, "values_that_are_mates": 50, "unrelated_searches_interleaved": 100, "ucinewgame_interleaved": 20, "value_searches_after_an_earlier_game_on_the_same_plies": 300}},
        rule="positions from reference walks (half-move clock <= 40) and synthesised low-material positions, both colours; `position fen P`, `go depth d` (d in 1..3) on one long-lived engine instance per shard with unrelated searches and ucinewgame interleaved; "
             "the reported score is compared (centipawns exactly, mates as distances) with a plain alpha-beta negamax over the reference move generator (no TT / killers / PV / iterative deepening; capture+promotion quiescence with stand-pat; leaf values from the engine's own static evaluation through the hook), the announced move must attain that value; "
             "positions the pure rules search proves 'mate in N' (N<=3) must be reported `mate N` at depth 2N-1 with a move that keeps the mate; every positive `mate N` report must carry a legal PV of 2N-1 plies ending in checkmate; distinct_nontrivial = distinct (position key, depth) pairs searched",
        assumptions=BASE_ASSUME + ["the reference mirrors two engine conventions fixed by the property text: quiescence uses stand-pat also when in check, and is entered when some pseudo-legal capture/promotion exists", "a reference search exceeding 3,000,000 nodes is inconclusive"],
    ),
    "C09": dict(
        crate="mon_engine", cmd="c09", level="fault_enumeration", needs_app=True,
        floors={"quick": {"searches_enumerated": 50, "interruption_points_enumerated": 5000, "interrupted_after_a_completed_iteration": 3000, "probe_searches": 5000, "consecutive_interruption_runs": 50, "quit_during_search": 50, "stop_and_same_position_back_to_back": 50, "late_stop_after_the_answer": 50, "zero_budget_go_after_an_interrupted_search": 40, "movetime_expiry": 30, "stop_after_*": 100, "real_abort_at_node_*": 50}},
        rule="interruption points are enumerated through the test point at the search's only suspension point: with poll interval 1 every negamax node is a poll, and abort_at_node(n) makes the search behave as if its move time expired at the n-th poll; for each chosen (position, depth) n runs over 1..T (thorough: every n; quick: stride so that <= 700 points per search), "
             "then 2-5 consecutive interrupted searches at random n; after every interrupted search: (a) the search thread's board dump equals the dump of the position given, (b) `go depth 1` without position answers a move legal in that position with the depth-1 score of a fresh engine, (c) exactly one bestmove, equal to the first PV move of the last completed iteration; "
             "real schedules without the test point (default 100 000-node poll): go infinite + stop after 0us..400ms, go movetime 1-20, quit during search, in-process and through the shipped binary; distinct_nontrivial = distinct (iteration, ply at abort) pairs observed",
        assumptions=BASE_ASSUME + ["an interruption inside the very first iteration is reachable only through the test point (the real poll happens every 100 000 nodes); it is checked for board integrity and the follow-up search but not for 'answers a move'"],
    ),
    "C10": dict(
        crate="mon_engine", cmd="c10", level="exploration",
        floors={"quick": {"layer1_queries": 100000, "layer1_threefold_cases": 10000, "layer1_real_positions": 20000, "layer1_real_threefold": 1000, "layer2_occurrence_count_1": 500, "layer2_occurrence_count_2": 200, "layer2_occurrence_count_3": 100, "layer2_bare_fen_after_history": 100,
                          "layer3_below_threshold": 150, "layer3_at_or_above_threshold": 60, "fifty_rule_applied": 30, "mate_on_threshold_ply_checks": 20, "layer4_perpetual_checks": 300, "layer4_scored_as_draw": 200}},
        rule="layer 1: count_repetitions (hook) against the model 'history[i] occurs >=3 times among i, i-2, ... >= i-window' on random hash histories (2-6 symbols, length <= 400, index offsets up to 60000) and on real shuffle games (hashes and clocks from the board); "
             "layer 2: lopsided low-material shuffle games (K+Q/R/QR/RR [+pawn] vs K, positions recur at varied distances, occasional pawn push, FEN clocks/move numbers up to 29000): `position fen .. moves <history>`, `go depth 1 searchmoves m` for quiet m; the reference counts occurrences of the resulting position since the last irreversible move; demand |score| <= contempt iff occurrences >= 3, else |score| >= 200; "
             "layer 3: pawnless lopsided material with no capture or terminal position within d plies, half-move clock h = 0..150 (every value), `go depth d`, d in {1,2}: h+d < 100 => |score| >= 300 (never an early fifty-move draw); h+d >= 100 recorded as fifty_rule_applied; mate in 1 at clock 98-120 must still be `mate 1`; layer 4: materially lost side to move with a forced four-ply perpetual-check cycle already played once (root occurred twice): `go depth 4|5` must not score below -contempt (the third occurrence is completed inside the searched line); "
             "distinct_nontrivial = distinct history windows / (game, search move) / (position, clock, depth) cases",
        assumptions=BASE_ASSUME + ["the sign convention of the contempt offset is not asserted, only its magnitude"],
    ),
    "C11": dict(
        crate="mon_engine", cmd="c11", level="exploration",
        floors={"quick": {"static_pairs_no-queens": 20000, "static_pairs_queens-one-side": 5000, "static_pairs_queens-few-minors": 2000, "static_pairs_queens-many-minors": 2000, "king_square_sweep": 1000,
                          "terminal_mate_white_to_move": 100, "terminal_mate_black_to_move": 100, "terminal_stalemate_white_to_move": 50, "terminal_stalemate_black_to_move": 50,
                          "search_pairs_depth_1": 200, "search_pairs_depth_2": 200, "search_pairs_depth_3": 200, "search_pairs_with_mate_score": 50, "mate_distance_checks_*": 30, "mated_side_checks": 20}},
        rule="metamorphic: flip = vertical mirror + colour swap (side to move, castling rights, e.p. square) by the reference model, loaded through the ordinary FEN path; static_eval(P) = -static_eval(flip P) over walk positions, synthesised material of all game stages and kings on all 64 squares; "
             "go depth 1..3 on P and flip(P) must report the same score / mate distance from the mover's view; checkmated side to move gets a losing mate score (also at other move numbers, later = better for the loser), stalemate = 0; forced mates report the same distance at different full-move numbers, and the defender one ply later is `mate -1`; "
             "distinct_nontrivial = distinct position keys with non-zero evaluation + terminal positions + (key, depth) search pairs",
        assumptions=BASE_ASSUME,
    ),
    "C16": dict(
        crate="mon_engine", cmd="c16", level="exploration", needs_app=True,
        floors={"quick": {"sessions": 60, "app_sessions": 30, "lines_info": 3000, "lines_bestmove": 800, "lines_id": 60, "lines_readyok": 30, "pvs_validated": 5000, "searches_judged": 1500, "cycles_where_opponent_played_the_ponder_move": 300, "root_session_searches": 200, "searches_on_a_sibling_move_list": 50, "searches_from_roots_that_occurred_before": 20, "output_stress_sessions": 16, "stress_lines_readyok": 10000, "stress_lines_info": 2000, "go_infinite": 150, "go_clock": 150, "go_movetime": 150, "go_depth": 300}},
        rule="whole sessions of 5-40 position/go cycles on one process: the engine plays its own bestmove and the opponent answers with the ponder move (60%, PV-continuation path) or a random legal move (diverged path), with/without ucinewgame, mixed limits (depth 1-4, movetime, clocks, infinite+stop), uci / isready / debug on|off interleaved; "
             "half of the sessions through the shipped binary (every stdout line after the banner validated against the monitor's own UCI engine-to-GUI grammar), half in-process (typed events); per search: depth / nodes / time never decrease, every reported PV is a legal line from the searched position per the reference, "
             "bestmove = first and ponder = second move of the last reported PV (ponder absent iff the PV has one move; no move announced if no PV was reported); sessions of unrelated roots as in C07 (recurring positions, mate / stalemate roots) searched to depth 2-5; output-stream stress on the hooked binary: the search thread prints an info line every 50 nodes while the main thread answers a burst of 800-2000 isready / uci commands - every line must be one intact message and every isready answered exactly once; distinct_nontrivial = distinct (root key, final PV) pairs",
        assumptions=BASE_ASSUME,
    ),
    "C18": dict(
        crate="mon_engine", cmd="c18", level="exploration",
        floors={"quick": {"operations": 1000000, "evictions": 100000, "puts_of_previously_used_key": 100000, "capacity_bucket_1-3": 1000, "large_capacity_cases": 3}},
        rule="random put/get/clear sequences (length 1-2000, capacity 1-64, key universe 1-3x capacity with small and large 64-bit keys, op mix 60/35/5, unique value per put) on the hook handle of HashTable<ZobristHash,u64>, compared after every operation with a 15-line sequential FIFO-map model: get result, len, len <= capacity, insertion queue length = len, load_factor, and presence of every key ever used (right eviction victim); plus large capacities (2^24, the engine's 10,000,000, 65,536; thorough also 2^24+1, 2^25, 2^23+1) filled with capacity+k distinct keys and checked in closed form (size = capacity, exactly the k oldest keys gone); "
             "distinct_nontrivial = distinct (capacity, operation sequence) cases that ran to the end",
        assumptions=BASE_ASSUME,
    ),
}

# Every monitor is also run built the way the engine is shipped (cargo profile `shipped`: no debug
# assertions, wrapping arithmetic) at a reduced scale: the harness profile keeps debug assertions and
# overflow checks on, and code whose behaviour depends on them must not look right only there.
for _p in PROPS.values():
    _l = _p.setdefault("lanes", {"quick": [], "thorough": []})
    for _t in ("quick", "thorough"):
        if "shipped" not in _l.setdefault(_t, []):
            _l[_t] = list(_l[_t]) + ["shipped"]

