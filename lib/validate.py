#!/usr/bin/env python3
"""Validate MANIFEST.json and evidence/*.json against the schemas (uses the tooling venv's jsonschema if the system python lacks it)."""
import glob, json, os, sys
try:
    import jsonschema
except ImportError:
    os.execv('/opt/veriftools/pyvenv/bin/python', ['/opt/veriftools/pyvenv/bin/python'] + sys.argv)
root = os.path.dirname(os.path.dirname(os.path.abspath(__file__)))
ok = True
def check(path, schema):
    global ok
    try:
        jsonschema.validate(json.load(open(path)), json.load(open(schema)))
        print('valid  ', path)
    except Exception as e:
        ok = False
        print('INVALID', path, str(e)[:300])
if os.path.exists(root + '/MANIFEST.json'):
    check(root + '/MANIFEST.json', '/root/.vp/MANIFEST.schema.json')
for f in sorted(glob.glob(root + '/evidence/*.json')):
    check(f, '/root/.vp/EVIDENCE.schema.json')
sys.exit(0 if ok else 1)
