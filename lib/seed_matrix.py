#!/usr/bin/env python3
"""Regenerates the sub-agent seeded-change table in DESIGN.md (between the SEED-MATRIX markers) from seeded/*/meta.json."""
import glob, json, os
root = os.path.dirname(os.path.dirname(os.path.abspath(__file__)))
rows = []
for f in sorted(glob.glob(root + '/seeded/*/meta.json')):
    m = json.load(open(f))
    caught = ", ".join(m['checks'].get('caught_by_quick', [])) or "—"
    note = m['checks'].get('note', '')
    rows.append(f"| `{m['id']}` | {m['property']} | {m['needs_to_manifest']} | {caught}{(' — ' + note) if note else ''} |")
table = "| seeded change | property | what it needs to manifest | caught by (quick) |\n|---|---|---|---|\n" + "\n".join(rows) + "\n"
p = root + '/DESIGN.md'
s = open(p).read()
a, b = '<!-- SEED-MATRIX-BEGIN -->', '<!-- SEED-MATRIX-END -->'
if a in s:
    s = s[:s.index(a) + len(a)] + "\n" + table + s[s.index(b):]
else:
    s = s.rstrip() + "\n\n" + a + "\n" + table + b + "\n"
open(p, 'w').write(s)
print(len(rows), "rows")
