#!/usr/bin/env python3
"""keep_seed.py <worktree> <A|B> <seed id> <property> <caught_by> <needs...>
Copies a confirmed sub-agent change into /verif/seeded/<id>/ with meta.json."""
import json, os, re, shutil, sys
wt, v, sid, prop, caught = sys.argv[1:6]
needs = " ".join(sys.argv[6:])
src = f"{wt}/OUT/{v}"
dst = f"/verif/seeded/{sid}"
os.makedirs(dst, exist_ok=True)
for f in ["patch.diff", "demo.rs", "demo_howto.txt", "notes.txt"]:
    if os.path.exists(f"{src}/{f}"):
        shutil.copy(f"{src}/{f}", f"{dst}/{f}")
# very large patches (whole table lines as context) are re-cut with zero context
if os.path.getsize(f"{dst}/patch.diff") > 100_000:
    import subprocess
    subprocess.run(["git", "-C", wt, "checkout", "-q", "--", "."])
    subprocess.run(["git", "-C", wt, "apply", f"{src}/patch.diff"], check=True)
    d = subprocess.run(["git", "-C", wt, "diff", "-U0"], capture_output=True, text=True).stdout
    subprocess.run(["git", "-C", wt, "checkout", "-q", "--", "."])
    open(f"{dst}/patch.diff", "w").write(d)
    open(f"{dst}/APPLY.txt", "w").write("zero-context patch: apply with `git apply --unidiff-zero patch.diff`\n")
confirm = open(f"{src}/confirm.log").read().strip().splitlines()[-1] if os.path.exists(f"{src}/confirm.log") else "not confirmed"
summary = ""
log = open(f"{src}/confirm.log").read() if os.path.exists(f"{src}/confirm.log") else ""
m = re.findall(r"Summary \[.*?\] (.*)", log)
meta = {
    "id": sid,
    "property": prop,
    "origin": "independent sub-agent given only the property text and its own scratch worktree",
    "needs_to_manifest": needs,
    "confirmed_in_scratch_worktree": {
        "what_was_run": "lib/confirm_seed.sh: demo on the unchanged tree (must pass), git apply patch, demo again (must fail), cargo build --offline --workspace, cargo nextest of the touched crates and their dependants (known always-failing tests excluded)",
        "result_line": confirm,
        "test_summary": m[-1] if m else None,
    },
    "checks": {"caught_by_quick": caught.split(",") if caught else [], "how": "lib/try_patch.sh <patch> <property> (git -C /repo apply; ./check <property> quick; git -C /repo checkout -- .)"},
}
json.dump(meta, open(f"{dst}/meta.json", "w"), indent=1)
print("kept", dst, confirm[:120])
