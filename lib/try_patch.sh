#!/bin/bash
# usage: lib/try_patch.sh <patch.diff> <Cxx> [<Cxx> ...]
# Applies a seeded change to a scratch worktree of /repo (never to /repo itself), runs the checks of
# the given properties against that copy (VERIF_REPO / VERIF_OUT), and resets the worktree.
# MUT_DIR / MUT_OUT choose another scratch worktree / output directory (parallel use).
# Prints one line per property: CAUGHT / MISSED (+ first violation signatures).
set -u
PATCH=$(readlink -f "$1"); shift
MUT=${MUT_DIR:-/tmp/repo_mut}
MOUT=${MUT_OUT:-/tmp/verif_out_mut}
if [ ! -d $MUT ]; then git -C /repo worktree add -q --detach $MUT HEAD || exit 2; cp /repo/Cargo.lock $MUT/Cargo.lock; fi
git -C $MUT checkout -q --detach "$(git -C /repo rev-parse HEAD)" || exit 2
git -C $MUT checkout -q -- . 
( cd $MUT && { git apply "$PATCH" 2>/dev/null || git apply --unidiff-zero "$PATCH"; } ) || { echo "patch does not apply"; exit 2; }
cd /verif
for P in "$@"; do
  OUT=$(VERIF_REPO=$MUT VERIF_OUT=$MOUT VERIF_SEED=${VERIF_SEED:-20261002} ./check "$P" ${TIER:-quick} 2>&1)
  RC=$?
  SIG=$(echo "$OUT" | grep -m3 "sig:" | tr '\n' ' ')
  if [ $RC -eq 1 ]; then echo "CAUGHT $P rc=$RC $SIG"; elif [ $RC -eq 0 ]; then echo "MISSED $P rc=$RC"; else echo "ERROR  $P rc=$RC $(echo "$OUT" | tail -3 | tr '\n' ' ')"; fi
done
git -C $MUT checkout -q -- .
