#!/bin/bash
# usage: lib/try_patch.sh <patch.diff> <Cxx> [<Cxx> ...]
# Applies a seeded change to /repo, runs the quick checks of the given properties, reverts the change.
# Prints one line per property: CAUGHT / MISSED (+ first violation signature).
set -u
PATCH=$(readlink -f "$1"); shift
cd /repo || exit 2
if ! git diff --quiet; then echo "/repo has uncommitted changes; refusing"; exit 2; fi
git apply "$PATCH" || { echo "patch does not apply"; exit 2; }
trap 'git -C /repo checkout -- . ' EXIT
cd /verif
for P in "$@"; do
  OUT=$(VERIF_SEED=${VERIF_SEED:-20261002} ./check "$P" ${TIER:-quick} 2>&1)
  RC=$?
  SIG=$(echo "$OUT" | grep -m3 "sig:" | tr '\n' ' ')
  if [ $RC -eq 1 ]; then echo "CAUGHT $P rc=$RC $SIG"; elif [ $RC -eq 0 ]; then echo "MISSED $P rc=$RC"; else echo "ERROR  $P rc=$RC $(echo "$OUT" | tail -3 | tr '\n' ' ')"; fi
done
