#!/bin/bash
# usage: confirm_seed.sh <worktree> <A|B> <demo destination relative to worktree> "<demo cargo command>" <crate> [<crate>...]
# Confirms in the scratch worktree: patch applies and builds, the listed crates' tests still pass
# (known always-failing tests excluded), the demonstration fails with the change and passes without.
WT=$1; V=$2; DEST=$3; DEMOCMD=$4; shift 4
cd "$WT" || exit 2
export CARGO_TARGET_DIR=$WT/target CARGO_NET_OFFLINE=true
LOG=$WT/OUT/$V/confirm.log
: > "$LOG"
git checkout -q -- . ; rm -f "$DEST"
mkdir -p "$(dirname "$DEST")"; cp "OUT/$V/demo.rs" "$DEST"
echo "## demo on unchanged tree" >> "$LOG"
( eval "$DEMOCMD" ) >> "$LOG" 2>&1; RC_CLEAN=$?
git apply "OUT/$V/patch.diff" || { echo "RESULT patch does not apply" | tee -a "$LOG"; exit 1; }
echo "## demo with change" >> "$LOG"
( eval "$DEMOCMD" ) >> "$LOG" 2>&1; RC_MUT=$?
rm -f "$DEST"
echo "## build workspace with change" >> "$LOG"
cargo build --offline --workspace >> "$LOG" 2>&1; RC_BUILD=$?
echo "## tests with change" >> "$LOG"
PK=""; for c in "$@"; do PK="$PK -p $c"; done
cargo nextest run $PK --no-fail-fast --test-threads 8 --offline -E 'not (test(run_all) | test(/test_threefold_[123]$/))' >> "$LOG" 2>&1
FAILED=$(grep -E "^\s+(FAIL|SIGABRT|TIMEOUT|SIGSEGV|SIGTERM|SIGKILL|SIG[A-Z]+)" "$LOG" | grep -v -E "test_threefold_[123]|perft::run_all" | sort -u | head -5)
git checkout -q -- .
echo "RESULT demo_clean_rc=$RC_CLEAN demo_mutant_rc=$RC_MUT build_rc=$RC_BUILD unexpected_test_failures=[$FAILED]" | tee -a "$LOG"
