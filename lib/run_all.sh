#!/bin/bash
# usage: lib/run_all.sh <tier> <seed>... : runs every check at the given seeds, one summary line each
TIER=$1; shift
cd /verif
for SEED in "$@"; do
  for P in C01 C02 C03 C04 C05 C06 C07 C08 C09 C10 C11 C12 C13 C14 C15 C16 C17 C18 C19; do
    OUT=$(VERIF_SEED=$SEED ./check $P $TIER 2>&1); RC=$?
    echo "seed=$SEED $P rc=$RC $(echo "$OUT" | grep -E "^\[check\] $P" | sed 's/\[check\] //') $(echo "$OUT" | grep -E "VIOLATION|HARNESS-ERROR|inconclusive:" | head -3 | tr '\n' ' ')"
  done
done
