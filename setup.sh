#!/bin/bash
# MANIFEST.setup_cmd: build the framework from files on disk only (offline) and self-test the oracle.
set -e
cd "$(dirname "$0")/harness"
export CARGO_NET_OFFLINE=true
[ -f Cargo.lock ] || cp /repo/Cargo.lock Cargo.lock
cargo build --release --offline -p refchess -p monlib -p mon_board -p mon_text -p mon_lichess -p mon_engine -p engine_app_hooked 2>&1 | tail -3
./target/release/selftest --deep
# the shipped binary with the repository's own release profile (hooks off)
(cd /repo && CARGO_TARGET_DIR=/verif/harness/target-app cargo build --release --offline -p inkayaku_engine_app 2>&1 | tail -1)
# sanitizer lane build (nightly AddressSanitizer); failure here is reported by the checks as inconclusive
(RUSTFLAGS="-Zsanitizer=address -Cforce-frame-pointers=yes" CARGO_TARGET_DIR="$PWD/target-asan" cargo +nightly build --release --offline --target x86_64-unknown-linux-gnu -p mon_board 2>&1 | tail -1) || echo "asan build failed (lane will be inconclusive)"
# the monitors once more in the shipped profile (lane "shipped-profile")
(cd "$PWD" && cargo build --profile shipped --offline -p mon_board -p mon_text -p mon_lichess -p mon_engine 2>&1 | tail -1)
echo "setup done"
