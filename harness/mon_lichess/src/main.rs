//! mon_lichess — C19: Lichess bot-stream payloads decode to the data they carry.

use std::str::FromStr;

use inkayaku_board::Bitboard;
use inkayaku_lichess_api::api::bot_event_response::BotEvent;
use inkayaku_lichess_api::api::bot_game_state_response::BotGameState;
use inkayaku_uci::UciMove;
use monlib::{guarded, json, panic_sig, Args, Report, Value};
use rand::rngs::StdRng;
use rand::seq::SliceRandom;
use rand::Rng;
use refchess::gen;
use refchess::*;

/// Our own JSON document model and writer (key order and escaping under our control).
#[derive(Clone, Debug)]
enum J {
    Null,
    Bool(bool),
    Num(u64),
    Int(i64),
    Str(String),
    /// free text that may really carry JSON escapes (user names, chat text, titles, urls)
    Text(String),
    Obj(Vec<(String, J)>),
}

fn esc(rng: &mut StdRng, s: &str, fancy: bool) -> String {
    let mut o = String::from("\"");
    for c in s.chars() {
        match c {
            '"' => o.push_str("\\\""),
            '\\' => o.push_str("\\\\"),
            '\n' => o.push_str("\\n"),
            '\t' => o.push_str("\\t"),
            c if (c as u32) < 0x20 => o.push_str(&format!("\\u{:04x}", c as u32)),
            c if fancy && !c.is_ascii() && rng.gen_bool(0.5) => {
                let mut buf = [0u16; 2];
                for u in c.encode_utf16(&mut buf) {
                    o.push_str(&format!("\\u{:04x}", u));
                }
            }
            c if fancy && c.is_ascii_alphabetic() && rng.gen_bool(0.05) => o.push_str(&format!("\\u{:04x}", c as u32)),
            '/' if fancy && rng.gen_bool(0.3) => o.push_str("\\/"),
            c => o.push(c),
        }
    }
    o.push('"');
    o
}

fn write(rng: &mut StdRng, j: &J, shuffle: bool, fancy: bool, out: &mut String) {
    match j {
        J::Null => out.push_str("null"),
        J::Bool(b) => out.push_str(if *b { "true" } else { "false" }),
        J::Num(n) => out.push_str(&n.to_string()),
        J::Int(n) => out.push_str(&n.to_string()),
        J::Str(s) => out.push_str(&esc(rng, s, fancy)),
        J::Text(s) => out.push_str(&esc(rng, s, fancy)),
        J::Obj(kv) => {
            let mut kv: Vec<&(String, J)> = kv.iter().collect();
            if shuffle {
                kv.shuffle(rng);
            }
            out.push('{');
            for (i, (k, v)) in kv.iter().enumerate() {
                if i > 0 {
                    out.push(',');
                }
                if fancy && rng.gen_bool(0.2) { out.push(' '); }
                out.push_str(&esc(rng, k, false));
                out.push(':');
                if fancy && rng.gen_bool(0.2) { out.push(' '); }
                write(rng, v, shuffle, fancy, out);
            }
            out.push('}');
        }
    }
}

macro_rules! opt {
    ($rng:expr, $o:expr, $k:expr, $v:expr, $a:expr) => {{
        let v = $v;
        opt_fn($rng, $o, $k, v, $a)
    }};
}

fn s(x: &str) -> J {
    J::Str(x.to_string())
}

fn t(x: &str) -> J {
    J::Text(x.to_string())
}

const STATUS: &[&str] = &["created", "started", "aborted", "mate", "resign", "stalemate", "timeout", "draw", "outoftime", "cheat", "noStart", "unknownFinish", "variantEnd"];
const VARIANT: &[&str] = &["standard", "crazyhouse", "chess960", "fromPosition", "kingOfTheHill", "threeCheck", "antichess", "atomic", "horde", "racingKings"];
const SPEED: &[&str] = &["ultraBullet", "bullet", "blitz", "rapid", "classical", "correspondence"];
const PERF: &[&str] = &["ultraBullet", "bullet", "blitz", "rapid", "classical", "correspondence", "standard", "chess960", "kingOfTheHill", "antichess", "atomic", "threeCheck", "racingKings", "crazyhouse", "puzzle"];
const SOURCE: &[&str] = &["lobby", "friend", "ai", "api", "arena", "position", "import", "importlive", "simul", "relay", "pool", "swiss"];
const CH_STATUS: &[&str] = &["created", "offline", "canceled", "declined", "accepted"];
const DECLINE: &[&str] = &["generic", "later", "toofast", "tooslow", "timecontrol", "rated", "casual", "standard", "variant", "nobot", "onlybot"];
const RULES: &[&str] = &["noAbort", "noRematch", "noGiveTime", "noClaimWin", "noEarlyDraw"];
const TEXTS: &[&str] = &["hello", "gg wp", "say \"hi\"", "back\\slash", "line\nbreak", "tab\there", "héllo wörld", "日本語", "emoji 😀 pair", "a/b", "", " ", "{\"type\":\"x\"}", "null", "O-O"];

fn pick<'a>(rng: &mut StdRng, v: &'a [&'a str]) -> &'a str {
    v.choose(rng).unwrap()
}

/// add `key: value` unless the optional field is dropped; absent fields are sometimes written as null
fn opt_fn(rng: &mut StdRng, obj: &mut Vec<(String, J)>, key: &str, v: J, absent: &mut Vec<String>) {
    match rng.gen_range(0..10) {
        0..=4 => obj.push((key.to_string(), v)),
        5 => {
            obj.push((key.to_string(), J::Null));
            absent.push(key.to_string());
        }
        _ => absent.push(key.to_string()),
    }
}

fn num32(rng: &mut StdRng) -> u64 {
    // includes values above 2^24 that a detour through f32 would not preserve, and the no-clock sentinel
    match rng.gen_range(0..9) { 0 => 0, 1 => 1, 2 => u32::MAX as u64, 3 => 60_000, 4 => 2_147_483_647, 5 => 16_777_217, 6 => rng.gen_range(16_777_216..4_294_967_295u64), 7 => 259_187_345, _ => rng.gen_range(0..10_000_000) }
}

fn game_moves(rng: &mut StdRng) -> (Vec<String>, Pos) {
    let n = match rng.gen_range(0..10) { 0 | 1 => 0, 2 => 1, 3 => rng.gen_range(150..300), _ => rng.gen_range(2..120) };
    let policy = gen::POLICIES[rng.gen_range(0..3)];
    let start = Pos::startpos();
    let (_, ms) = gen::walk(rng, &start, policy, n);
    (ms.iter().map(|m| m.uci()).collect(), start)
}

struct Doc {
    shape: &'static str,
    j: J,
    moves: Option<Vec<String>>,
    clocks: Option<[u64; 4]>,
    status: Option<String>,
}

fn state_obj(rng: &mut StdRng, with_type: bool) -> (Vec<(String, J)>, Vec<String>, [u64; 4], String) {
    let (moves, _) = game_moves(rng);
    let clocks = [num32(rng), num32(rng), num32(rng), num32(rng)];
    let status = pick(rng, STATUS).to_string();
    let mut o = vec![];
    if with_type {
        o.push(("type".to_string(), s("gameState")));
    }
    // `moves` may be missing altogether (serde default) or the empty string
    if !(moves.is_empty() && rng.gen_bool(0.5)) {
        o.push(("moves".to_string(), J::Str(moves.join(" "))));
    }
    o.push(("wtime".to_string(), J::Num(clocks[0])));
    o.push(("btime".to_string(), J::Num(clocks[1])));
    o.push(("winc".to_string(), J::Num(clocks[2])));
    o.push(("binc".to_string(), J::Num(clocks[3])));
    o.push(("status".to_string(), s(&status)));
    let mut absent = vec![];
    opt!(rng, &mut o, "wdraw", J::Bool(rng.gen_bool(0.5)), &mut absent);
    opt!(rng, &mut o, "bdraw", J::Bool(rng.gen_bool(0.5)), &mut absent);
    opt!(rng, &mut o, "wtakeback", J::Bool(rng.gen_bool(0.5)), &mut absent);
    opt!(rng, &mut o, "btakeback", J::Bool(rng.gen_bool(0.5)), &mut absent);
    opt!(rng, &mut o, "winner", s(if rng.gen_bool(0.5) { "white" } else { "black" }), &mut absent);
    opt!(rng, &mut o, "rematch", s("abcdEFGH"), &mut absent);
    (o, moves, clocks, status)
}

fn player(rng: &mut StdRng) -> J {
    let mut o = vec![("id".to_string(), s(pick(rng, &["bot_one", "some-user", "x"])))];
    let mut a = vec![];
    opt!(rng, &mut o, "aiLevel", J::Num(rng.gen_range(1..9)), &mut a);
    opt!(rng, &mut o, "name", t(pick(rng, TEXTS)), &mut a);
    opt!(rng, &mut o, "title", t(pick(rng, &["BOT", "GM", "IM", "WFM"])), &mut a);
    opt!(rng, &mut o, "rating", J::Num(rng.gen_range(600..3300)), &mut a);
    opt!(rng, &mut o, "provisional", J::Bool(rng.gen_bool(0.5)), &mut a);
    J::Obj(o)
}

fn variant_full(rng: &mut StdRng) -> J {
    J::Obj(vec![("key".into(), s(pick(rng, VARIANT))), ("name".into(), t(pick(rng, &["Standard", "Chess960", "King of the Hill"]))), ("short".into(), s(pick(rng, &["Std", "960", "KotH"])))])
}

fn game_state_doc(rng: &mut StdRng) -> Doc {
    match rng.gen_range(0..4) {
        0 => {
            let with_type = rng.gen_bool(0.7);
            let (st, moves, clocks, status) = state_obj(rng, with_type);
            let mut o = vec![
                ("type".to_string(), s("gameFull")),
                ("id".to_string(), s("5IrD6Gzz")),
                ("variant".to_string(), variant_full(rng)),
                ("speed".to_string(), s(pick(rng, SPEED))),
                ("perf".to_string(), J::Obj(vec![("name".into(), s(pick(rng, &["Blitz", "Bullet", "Rapid"])))])),
                ("rated".to_string(), J::Bool(rng.gen_bool(0.5))),
                ("createdAt".to_string(), J::Num(rng.gen_range(1_500_000_000_000..1_900_000_000_000))),
                ("white".to_string(), player(rng)),
                ("black".to_string(), player(rng)),
                ("initialFen".to_string(), s(if rng.gen_bool(0.8) { "startpos" } else { "rnbqkbnr/pppppppp/8/8/8/8/PPPPPPPP/RNBQKBNR w KQkq - 0 1" })),
                ("state".to_string(), J::Obj(st)),
            ];
            let mut a = vec![];
            opt!(rng, &mut o, "clock", J::Obj(vec![("initial".into(), J::Num(num32(rng))), ("increment".into(), J::Num(num32(rng)))]), &mut a);
            opt!(rng, &mut o, "daysPerTurn", J::Num(rng.gen_range(1..14)), &mut a);
            opt!(rng, &mut o, "tournamentId", s("Qv0dRqml"), &mut a);
            Doc { shape: "gameFull", j: J::Obj(o), moves: Some(moves), clocks: Some(clocks), status: Some(status) }
        }
        1 => {
            let (st, moves, clocks, status) = state_obj(rng, true);
            Doc { shape: "gameState", j: J::Obj(st), moves: Some(moves), clocks: Some(clocks), status: Some(status) }
        }
        2 => Doc { shape: "chatLine", j: J::Obj(vec![("type".into(), s("chatLine")), ("room".into(), s(if rng.gen_bool(0.5) { "player" } else { "spectator" })), ("username".into(), t(pick(rng, TEXTS))), ("text".into(), t(pick(rng, TEXTS)))]), moves: None, clocks: None, status: None },
        _ => {
            let mut o = vec![("type".to_string(), s("opponentGone")), ("gone".to_string(), J::Bool(rng.gen_bool(0.5)))];
            let mut a = vec![];
            opt!(rng, &mut o, "claimWinInSeconds", J::Num(rng.gen_range(0..120)), &mut a);
            Doc { shape: "opponentGone", j: J::Obj(o), moves: None, clocks: None, status: None }
        }
    }
}

fn compat(rng: &mut StdRng) -> J {
    J::Obj(vec![("bot".into(), J::Bool(rng.gen_bool(0.5))), ("board".into(), J::Bool(rng.gen_bool(0.5)))])
}

fn game_event_info(rng: &mut StdRng) -> J {
    let mut opp = vec![("id".to_string(), s("philippe")), ("username".to_string(), t(pick(rng, TEXTS)))];
    let mut a = vec![];
    opt!(rng, &mut opp, "rating", J::Num(rng.gen_range(600..3300)), &mut a);
    opt!(rng, &mut opp, "ratingDiff", J::Int(rng.gen_range(-40..40)), &mut a);
    opt!(rng, &mut opp, "ai", J::Num(rng.gen_range(1..9)), &mut a);
    let mut o = vec![
        ("fullId".to_string(), s("rCRw1AuOvonq")),
        ("gameId".to_string(), s("rCRw1AuO")),
        ("fen".to_string(), s("r1bqkbnr/pppp2pp/2n1pp2/8/8/3PP3/PPPB1PPP/RN1QKBNR w KQkq - 2 4")),
        ("color".to_string(), s(if rng.gen_bool(0.5) { "white" } else { "black" })),
        ("lastMove".to_string(), s(pick(rng, &["b8c6", "", "e7e8q"]))),
        ("source".to_string(), s(pick(rng, SOURCE))),
        ("status".to_string(), J::Obj(vec![("id".into(), J::Num(rng.gen_range(10..60))), ("name".into(), s(pick(rng, STATUS)))])),
        ("variant".to_string(), J::Obj(vec![("key".into(), s(pick(rng, VARIANT))), ("name".into(), s("Standard"))])),
        ("speed".to_string(), s(pick(rng, SPEED))),
        ("perf".to_string(), s(pick(rng, PERF))),
        ("rated".to_string(), J::Bool(rng.gen_bool(0.5))),
        ("hasMoved".to_string(), J::Bool(rng.gen_bool(0.5))),
        ("opponent".to_string(), J::Obj(opp)),
    ];
    opt!(rng, &mut o, "secondsLeft", J::Num(num32(rng)), &mut a);
    opt!(rng, &mut o, "tournamentId", s("abc"), &mut a);
    opt!(rng, &mut o, "swissId", s("swi"), &mut a);
    opt!(rng, &mut o, "orientation", s(if rng.gen_bool(0.5) { "white" } else { "black" }), &mut a);
    opt!(rng, &mut o, "winner", s(if rng.gen_bool(0.5) { "white" } else { "black" }), &mut a);
    opt!(rng, &mut o, "ratingDiff", J::Int(rng.gen_range(-40..40)), &mut a);
    opt!(rng, &mut o, "compat", compat(rng), &mut a);
    J::Obj(o)
}

fn challenger(rng: &mut StdRng) -> J {
    let mut o = vec![("id".to_string(), s("lovlas")), ("name".to_string(), t(pick(rng, TEXTS))), ("rating".to_string(), J::Num(rng.gen_range(600..3300)))];
    let mut a = vec![];
    opt!(rng, &mut o, "title", s("IM"), &mut a);
    opt!(rng, &mut o, "provisional", J::Bool(rng.gen_bool(0.5)), &mut a);
    opt!(rng, &mut o, "patron", J::Bool(rng.gen_bool(0.5)), &mut a);
    opt!(rng, &mut o, "online", J::Bool(rng.gen_bool(0.5)), &mut a);
    opt!(rng, &mut o, "lag", J::Num(rng.gen_range(0..500)), &mut a);
    J::Obj(o)
}

fn challenge_info(rng: &mut StdRng) -> J {
    let tc = match rng.gen_range(0..3) {
        0 => J::Obj(vec![("type".into(), s("clock")), ("limit".into(), J::Num(num32(rng))), ("increment".into(), J::Num(num32(rng))), ("show".into(), t("5+2"))]),
        1 => J::Obj(vec![("type".into(), s("correspondence")), ("daysPerTurn".into(), J::Num(rng.gen_range(1..14)))]),
        _ => J::Obj(vec![("type".into(), s("unlimited"))]),
    };
    let mut o = vec![
        ("id".to_string(), s("7pGLxJ4F")),
        ("url".to_string(), t("https://lichess.org/VU0nyvsW")),
        ("status".to_string(), s(pick(rng, CH_STATUS))),
        ("variant".to_string(), variant_full(rng)),
        ("rated".to_string(), J::Bool(rng.gen_bool(0.5))),
        ("speed".to_string(), s(pick(rng, SPEED))),
        ("timeControl".to_string(), tc),
        ("color".to_string(), s(pick(rng, &["random", "white", "black"]))),
        ("finalColor".to_string(), s(if rng.gen_bool(0.5) { "white" } else { "black" })),
        ("perf".to_string(), J::Obj(vec![("icon".into(), t(pick(rng, &["#", "\u{e008}", ")"]))), ("name".into(), s("Rapid"))])),
    ];
    let mut a = vec![];
    opt!(rng, &mut o, "challenger", challenger(rng), &mut a);
    opt!(rng, &mut o, "destUser", challenger(rng), &mut a);
    opt!(rng, &mut o, "rematchOf", s("abcd1234"), &mut a);
    opt!(rng, &mut o, "direction", s(if rng.gen_bool(0.5) { "in" } else { "out" }), &mut a);
    opt!(rng, &mut o, "initialFen", s("rnbqkbnr/pppppppp/8/8/8/8/PPPPPPPP/RNBQKBNR w KQkq - 0 1"), &mut a);
    opt!(rng, &mut o, "declineReason", s(pick(rng, DECLINE)), &mut a);
    if rng.gen_bool(0.5) {
        let mut r: Vec<&str> = RULES.to_vec();
        r.shuffle(rng);
        r.truncate(rng.gen_range(1..=5));
        o.push(("rules".to_string(), J::Str(r.join(","))));
    }
    J::Obj(o)
}

fn event_doc(rng: &mut StdRng) -> Doc {
    let (shape, j) = match rng.gen_range(0..5) {
        0 => ("gameStart", J::Obj(vec![("type".into(), s("gameStart")), ("game".into(), game_event_info(rng))])),
        1 => ("gameFinish", J::Obj(vec![("type".into(), s("gameFinish")), ("game".into(), game_event_info(rng))])),
        2 => {
            let mut o = vec![("type".to_string(), s("challenge")), ("challenge".to_string(), challenge_info(rng))];
            let mut a = vec![];
            opt!(rng, &mut o, "compat", compat(rng), &mut a);
            ("challenge", J::Obj(o))
        }
        3 => ("challengeCanceled", J::Obj(vec![("type".into(), s("challengeCanceled")), ("challenge".into(), challenge_info(rng))])),
        _ => ("challengeDeclined", J::Obj(vec![("type".into(), s("challengeDeclined")), ("challenge".into(), challenge_info(rng))])),
    };
    Doc { shape, j, moves: None, clocks: None, status: None }
}

/// every path of the source document must be present with the same value in the re-encoded one;
/// `moves` / `rules` are strings in the source and lists after decoding.
fn compare_paths(src: &Value, enc: &Value, path: &str, out: &mut Vec<String>) {
    match src {
        Value::Object(m) => {
            for (k, v) in m {
                let p = format!("{}.{}", path, k);
                // the nested `type` tag of `state` is not part of the model
                if k == "type" && path.ends_with(".state") {
                    continue;
                }
                match enc.get(k) {
                    None => {
                        if !v.is_null() {
                            out.push(format!("{} dropped (source {})", p, short(v)));
                        }
                    }
                    Some(e) => {
                        if k == "moves" && v.is_string() {
                            let want: Vec<Value> = v.as_str().unwrap().split(' ').filter(|t| !t.is_empty()).map(|t| Value::String(t.to_string())).collect();
                            if e != &Value::Array(want) {
                                out.push(format!("{} decoded to {}", p, short(e)));
                            }
                        } else if k == "rules" && v.is_string() {
                            let want: Vec<Value> = v.as_str().unwrap().split(',').map(|t| Value::String(t.to_string())).collect();
                            if e != &Value::Array(want) {
                                out.push(format!("{} decoded to {}", p, short(e)));
                            }
                        } else {
                            compare_paths(v, e, &p, out);
                        }
                    }
                }
            }
        }
        _ => {
            if src != enc {
                out.push(format!("{}: source {} decoded {}", path, short(src), short(enc)));
            }
        }
    }
}

fn short(v: &Value) -> String {
    v.to_string().chars().take(80).collect()
}

fn check_doc(rng: &mut StdRng, d: &Doc, is_event: bool, rep: &mut Report) {
    let shuffle = rng.gen_bool(0.6);
    let fancy = rng.gen_bool(0.5);
    let mut text = String::new();
    write(rng, &d.j, shuffle, fancy, &mut text);
    rep.eval();
    rep.count(&format!("shape_{}", d.shape));
    if shuffle { rep.count("key_order_shuffled"); }
    if fancy { rep.count("with_json_escapes"); }
    let replay = json!({"kind":"c19","stream": if is_event {"event"} else {"game"},"document":text});
    let src: Value = match serde_json::from_str(&text) {
        Ok(v) => v,
        Err(e) => { rep.inconclusive(&format!("generator wrote invalid JSON: {}", e)); return; }
    };
    rep.distinct_str(&text);
    let t2 = text.clone();
    let decoded: Result<Result<Value, String>, String> = if is_event {
        guarded(move || serde_json::from_str::<BotEvent>(&t2).map_err(|e| e.to_string()).and_then(|v| serde_json::to_value(&v).map_err(|e| e.to_string())))
    } else {
        guarded(move || serde_json::from_str::<BotGameState>(&t2).map_err(|e| e.to_string()).and_then(|v| serde_json::to_value(&v).map_err(|e| e.to_string())))
    };
    let enc = match decoded {
        Err(pm) => { rep.violation(&format!("decode-{}", panic_sig(&pm)), format!("decoding {} panicked: {} :: {}", d.shape, pm, text.chars().take(300).collect::<String>()), replay); return; }
        Ok(Err(e)) => {
            let what: String = e.chars().filter(|c| !c.is_ascii_digit()).take(40).collect();
            rep.violation(&format!("decode-error:{}:{}", d.shape, what.trim()), format!("{} not decoded: {} :: {}", d.shape, e, text.chars().take(400).collect::<String>()), replay);
            return;
        }
        Ok(Ok(v)) => v,
    };
    let mut diffs = Vec::new();
    compare_paths(&src, &enc, "$", &mut diffs);
    if !diffs.is_empty() {
        let first = diffs[0].split(' ').next().unwrap_or("").to_string();
        rep.violation(&format!("content-differs:{}:{}", d.shape, first), format!("{}: {}", d.shape, diffs.join("; ")).chars().take(600).collect(), replay.clone());
    }
    // direct checks on the fields the bot uses
    if let Some(moves) = &d.moves {
        let t3 = text.clone();
        let r = guarded(move || {
            let st = match serde_json::from_str::<BotGameState>(&t3) {
                Ok(BotGameState::GameFull { state, .. }) => state,
                Ok(BotGameState::GameState { state }) => state,
                _ => return Err("wrong variant".to_string()),
            };
            let status = serde_json::to_value(&st.status).map(|v| v.as_str().unwrap_or("").to_string()).unwrap_or_default();
            // what the bot does with the list
            let mut bad_move = None;
            for m in &st.moves {
                if UciMove::from_str(m).is_err() { bad_move = Some(m.clone()); break; }
            }
            let mut bb = Bitboard::default();
            let mut replay_err = None;
            for (i, m) in st.moves.iter().enumerate() {
                if bb.make_uci(m).is_err() { replay_err = Some(i); break; }
            }
            Ok((st.moves.clone(), [st.wtime as u64, st.btime as u64, st.winc as u64, st.binc as u64], status, bad_move, replay_err))
        });
        match r {
            Err(pm) => rep.violation(&format!("moves-{}", panic_sig(&pm)), format!("{}", pm), replay.clone()),
            Ok(Err(e)) => rep.violation("state-not-accessible", e, replay.clone()),
            Ok(Ok((got_moves, clocks, status, bad_move, replay_err))) => {
                rep.add("moves_decoded", got_moves.len() as u64);
                rep.max("max_moves_in_document", got_moves.len() as u64);
                if moves.is_empty() { rep.count("documents_with_no_moves"); }
                if &got_moves != moves {
                    rep.violation(&format!("moves-differ:{}", d.shape), format!("decoded {} moves, document has {}", got_moves.len(), moves.len()), replay.clone());
                }
                if Some(clocks) != d.clocks {
                    rep.violation("clocks-differ", format!("decoded {:?}, document {:?}", clocks, d.clocks), replay.clone());
                }
                if Some(&status) != d.status.as_ref() {
                    rep.violation("status-differs", format!("decoded {:?}, document {:?}", status, d.status), replay.clone());
                }
                if let Some(m) = bad_move { rep.violation("move-not-accepted-by-uci-parser", format!("{:?}", m), replay.clone()); }
                if let Some(i) = replay_err { rep.violation("moves-do-not-replay", format!("move index {}", i), replay.clone()); }
            }
        }
    }
    if rep.samples.len() < 6 && rng.gen_range(0..3000) == 0 {
        rep.sample(json!({"shape": d.shape, "document": text.chars().take(700).collect::<String>()}));
    }
}

fn main() {
    let args = Args::parse();
    monlib::quiet_panics();
    let mut rep = Report::new("C19");
    if let Some(path) = &args.replay {
        let case = monlib::read_replay(path);
        let case = if case.get("case").is_some() { case["case"].clone() } else { case };
        let text = case["document"].as_str().unwrap_or("").to_string();
        let is_event = case["stream"].as_str() == Some("event");
        let src: Value = serde_json::from_str(&text).expect("replay document is JSON");
        let enc = if is_event { serde_json::from_str::<BotEvent>(&text).map_err(|e| e.to_string()).and_then(|v| serde_json::to_value(&v).map_err(|e| e.to_string())) } else { serde_json::from_str::<BotGameState>(&text).map_err(|e| e.to_string()).and_then(|v| serde_json::to_value(&v).map_err(|e| e.to_string())) };
        match enc {
            Err(e) => rep.violation("decode-error", e, case.clone()),
            Ok(enc) => {
                let mut d = Vec::new();
                compare_paths(&src, &enc, "$", &mut d);
                if !d.is_empty() { rep.violation("content-differs", d.join("; "), case.clone()); }
            }
        }
        println!("replay: {} violation(s)", rep.violation_count);
        for v in &rep.violations { println!("  {} :: {}", v.sig, v.detail); }
        std::process::exit(if rep.violation_count > 0 { 1 } else { 0 });
    }
    let mut rng = gen::rng(args.seed, args.shard, 19);
    let n = args.budget(1_600_000, 32_000_000) / args.nshards.max(1);
    for i in 0..n {
        if i % 2 == 0 {
            let d = game_state_doc(&mut rng);
            check_doc(&mut rng, &d, false, &mut rep);
        } else {
            let d = event_doc(&mut rng);
            check_doc(&mut rng, &d, true, &mut rep);
        }
    }
    rep.extra.insert("seed".into(), json!(args.seed));
    rep.finish(&args);
}
