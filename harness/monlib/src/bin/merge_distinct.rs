//! merge_distinct <file>... : number of distinct u64 values over all files (8-byte LE records).
use std::io::Read;
fn main() {
    let mut all: Vec<u64> = Vec::new();
    for path in std::env::args().skip(1) {
        let mut buf = Vec::new();
        if let Ok(mut f) = std::fs::File::open(&path) {
            f.read_to_end(&mut buf).unwrap();
        }
        for c in buf.chunks_exact(8) {
            all.push(u64::from_le_bytes(c.try_into().unwrap()));
        }
    }
    all.sort_unstable();
    all.dedup();
    println!("{}", all.len());
}
