//! Shared plumbing of the monitors: arguments, report (counters, distinct sets, violations,
//! samples, inconclusive), panic capture.

use std::collections::{BTreeMap, HashSet};
use std::io::Write;
use std::panic::{catch_unwind, AssertUnwindSafe, UnwindSafe};
use std::sync::Mutex;
use std::time::Instant;

pub use serde_json::{json, Value};

#[derive(Clone, Debug)]
pub struct Args {
    pub cmd: String,
    pub seed: u64,
    pub shard: u64,
    pub nshards: u64,
    pub thorough: bool,
    pub out: Option<String>,
    pub replay: Option<String>,
    /// workload multiplier (driver passes it for the sanitizer lanes: e.g. 0.1)
    pub scale: f64,
    pub rest: BTreeMap<String, String>,
}

impl Args {
    pub fn parse() -> Args {
        let mut a = Args { cmd: String::new(), seed: 1, shard: 0, nshards: 1, thorough: false, out: None, replay: None, scale: 1.0, rest: BTreeMap::new() };
        let mut it = std::env::args().skip(1);
        while let Some(x) = it.next() {
            match x.as_str() {
                "--seed" => a.seed = it.next().and_then(|v| v.parse().ok()).expect("--seed N"),
                "--shard" => a.shard = it.next().and_then(|v| v.parse().ok()).expect("--shard N"),
                "--nshards" => a.nshards = it.next().and_then(|v| v.parse().ok()).expect("--nshards N"),
                "--tier" => a.thorough = it.next().expect("--tier quick|thorough") == "thorough",
                "--out" => a.out = it.next(),
                "--replay" => a.replay = it.next(),
                "--scale" => a.scale = it.next().and_then(|v| v.parse().ok()).expect("--scale F"),
                s if s.starts_with("--") => {
                    let v = it.next().unwrap_or_default();
                    a.rest.insert(s[2..].to_string(), v);
                }
                s => {
                    if a.cmd.is_empty() {
                        a.cmd = s.to_string();
                    }
                }
            }
        }
        a
    }
    /// budget helper: quick value, thorough value, scaled
    pub fn budget(&self, quick: u64, thorough: u64) -> u64 {
        let b = if self.thorough { thorough } else { quick };
        ((b as f64 * self.scale) as u64).max(1)
    }
    pub fn get_u64(&self, key: &str, default: u64) -> u64 {
        self.rest.get(key).and_then(|v| v.parse().ok()).unwrap_or(default)
    }
}

#[derive(Clone, Debug)]
pub struct Violation {
    /// exact signature used to match known findings
    pub sig: String,
    pub detail: String,
    pub replay: Value,
}

pub struct Report {
    pub property: String,
    pub start: Instant,
    pub evaluations: u64,
    pub counters: BTreeMap<String, u64>,
    pub distinct: HashSet<u64>,
    pub violations: Vec<Violation>,
    pub violation_count: u64,
    pub violation_sigs: BTreeMap<String, u64>,
    pub samples: Vec<Value>,
    pub inconclusive: BTreeMap<String, u64>,
    pub extra: BTreeMap<String, Value>,
    pub max_recorded: usize,
}

impl Report {
    pub fn new(property: &str) -> Report {
        Report {
            property: property.to_string(),
            start: Instant::now(),
            evaluations: 0,
            counters: BTreeMap::new(),
            distinct: HashSet::new(),
            violations: Vec::new(),
            violation_count: 0,
            violation_sigs: BTreeMap::new(),
            samples: Vec::new(),
            inconclusive: BTreeMap::new(),
            extra: BTreeMap::new(),
            max_recorded: 40,
        }
    }
    #[inline]
    pub fn count(&mut self, key: &str) {
        *self.counters.entry(key.to_string()).or_insert(0) += 1;
    }
    #[inline]
    pub fn add(&mut self, key: &str, n: u64) {
        *self.counters.entry(key.to_string()).or_insert(0) += n;
    }
    pub fn max(&mut self, key: &str, n: u64) {
        let e = self.counters.entry(key.to_string()).or_insert(0);
        if n > *e {
            *e = n;
        }
    }
    #[inline]
    pub fn eval(&mut self) {
        self.evaluations += 1;
    }
    pub fn distinct_hash(&mut self, h: u64) {
        self.distinct.insert(h);
    }
    pub fn distinct_str(&mut self, s: &str) {
        self.distinct.insert(fnv(s.as_bytes()));
    }
    pub fn inconclusive(&mut self, why: &str) {
        *self.inconclusive.entry(why.to_string()).or_insert(0) += 1;
    }
    pub fn sample(&mut self, v: Value) {
        if self.samples.len() < 8 {
            self.samples.push(v);
        }
    }
    pub fn violation(&mut self, sig: &str, detail: String, replay: Value) {
        self.violation_count += 1;
        let n = self.violation_sigs.entry(sig.to_string()).or_insert(0);
        *n += 1;
        // keep at most 3 examples per signature and max_recorded overall
        if *n <= 3 && self.violations.len() < self.max_recorded {
            self.violations.push(Violation { sig: sig.to_string(), detail, replay });
        }
    }

    pub fn to_json(&self) -> Value {
        json!({
            "property": self.property,
            "evaluations": self.evaluations,
            "counters": self.counters,
            "distinct_local": self.distinct.len(),
            "violation_count": self.violation_count,
            "violation_sigs": self.violation_sigs,
            "violations": self.violations.iter().map(|v| json!({"sig": v.sig, "detail": v.detail, "replay": v.replay})).collect::<Vec<_>>(),
            "samples": self.samples,
            "inconclusive": self.inconclusive,
            "extra": self.extra,
            "wall_s": self.start.elapsed().as_secs_f64(),
        })
    }

    /// Write `<out>` (JSON) and `<out>.distinct` (u64 LE hashes). Without `--out`, print JSON.
    pub fn finish(&self, args: &Args) {
        let j = self.to_json();
        match &args.out {
            Some(path) => {
                std::fs::write(path, serde_json::to_string(&j).unwrap()).expect("write report");
                let mut f = std::io::BufWriter::new(std::fs::File::create(format!("{}.distinct", path)).expect("distinct file"));
                for h in &self.distinct {
                    f.write_all(&h.to_le_bytes()).unwrap();
                }
                f.flush().unwrap();
            }
            None => println!("{}", serde_json::to_string_pretty(&j).unwrap()),
        }
    }
}

pub fn fnv(bytes: &[u8]) -> u64 {
    let mut h: u64 = 0xcbf29ce484222325;
    for b in bytes {
        h ^= *b as u64;
        h = h.wrapping_mul(0x100000001b3);
    }
    h
}

pub fn mix(a: u64, b: u64) -> u64 {
    let mut h = a ^ b.wrapping_mul(0x9E3779B97F4A7C15);
    h ^= h >> 29;
    h = h.wrapping_mul(0xBF58476D1CE4E5B9);
    h ^= h >> 32;
    h
}

static LAST_PANIC: Mutex<Option<String>> = Mutex::new(None);

/// Install a quiet panic hook that remembers the last message (location + payload).
pub fn quiet_panics() {
    if std::env::var("VERIF_LOUD_PANICS").is_ok() {
        return;
    }
    std::panic::set_hook(Box::new(|info| {
        let loc = info.location().map(|l| format!("{}:{}", l.file(), l.line())).unwrap_or_default();
        let msg = if let Some(s) = info.payload().downcast_ref::<&str>() {
            s.to_string()
        } else if let Some(s) = info.payload().downcast_ref::<String>() {
            s.clone()
        } else {
            "<non-string panic>".to_string()
        };
        if let Ok(mut g) = LAST_PANIC.lock() {
            *g = Some(format!("{} @ {}", msg, loc));
        }
    }));
}

/// Run `f`, converting a panic into `Err(message)`.
pub fn guarded<T>(f: impl FnOnce() -> T + UnwindSafe) -> Result<T, String> {
    match catch_unwind(f) {
        Ok(v) => Ok(v),
        Err(_) => Err(LAST_PANIC.lock().ok().and_then(|mut g| g.take()).unwrap_or_else(|| "panic".to_string())),
    }
}

pub fn guarded_mut<T>(f: impl FnOnce() -> T) -> Result<T, String> {
    guarded(AssertUnwindSafe(f))
}

/// Strip line numbers / volatile parts from a panic message to build a stable signature.
pub fn panic_sig(msg: &str) -> String {
    // "msg @ /repo/x/y.rs:123" -> keep file, drop line; truncate message
    let (m, loc) = match msg.rsplit_once(" @ ") {
        Some((m, l)) => (m, l),
        None => (msg, ""),
    };
    let file = loc.rsplit_once(':').map(|x| x.0).unwrap_or(loc);
    let file = file.trim_start_matches("/repo/");
    let head: String = m.chars().filter(|c| !c.is_ascii_digit()).take(40).collect();
    format!("panic[{}|{}]", file, head.trim())
}

pub fn read_replay(path: &str) -> Value {
    let s = std::fs::read_to_string(path).expect("read replay file");
    serde_json::from_str(&s).expect("replay json")
}
