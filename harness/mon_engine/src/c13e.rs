//! C13 at the engine boundary: a `position` command whose move list contains a rejected move must
//! leave the engine's position exactly as it was (the caller of make/find_uci named in the property).

use monlib::{json, Report};
use rand::rngs::StdRng;
use rand::seq::SliceRandom;
use rand::Rng;
use refchess::gen;
use refchess::*;

use crate::common::*;
use crate::session::*;

fn bad_move(rng: &mut StdRng, at: &Pos) -> Option<String> {
    let legal = at.legal_moves();
    let cands: Vec<String> = match rng.gen_range(0..4) {
        0 => at.pseudo_moves().into_iter().filter(|m| !legal.contains(m)).map(|m| m.uci()).collect(),
        1 => { let mut o = at.clone(); o.wtm = !o.wtm; o.ep = None; o.pseudo_moves().into_iter().map(|m| m.uci()).collect() }
        2 => legal.iter().filter(|m| m.promo == 0).map(|m| format!("{}q", m.uci())).collect(),
        _ => (0..8).map(|_| format!("{}{}", sq_name(rng.gen_range(0..64)), sq_name(rng.gen_range(0..64)))).collect(),
    };
    let legal_u: Vec<String> = legal.iter().map(|m| m.uci()).collect();
    let cands: Vec<String> = cands.into_iter().filter(|u| !legal_u.contains(u) && u[0..2] != u[2..4]).collect();
    cands.choose(rng).cloned()
}

pub fn session(rng: &mut StdRng, starts: &mut gen::Starts, rep: &mut Report) {
    let use_startpos = rng.gen_bool(0.4);
    let base = if use_startpos { Pos::startpos() } else { starts.next(rng) };
    let fen = if use_startpos { None } else { Some(base.to_fen()) };
    let n = rng.gen_range(0..20);
    let policy = gen::POLICIES[rng.gen_range(0..3)];
    let (ps, ms) = gen::walk(rng, &base, policy, n);
    let held = ps.last().unwrap().clone();
    if held.legal_moves().is_empty() { return; }
    let l: Vec<String> = ms.iter().map(|m| m.uci()).collect();
    let mut sess = InProc::new();
    sess.record_infos = false;
    // accepted command (sometimes preceded by a search so that engine-side caches exist)
    if sess.send(&Gui::Position { fen: fen.clone(), moves: l.clone() }).is_err() { return; }
    if rng.gen_bool(0.5) { let _ = search(&mut sess, None, &GoSpec::depth(1)); }
    // rejected command: same prefix (or not), 0..3 further legal moves, then a move that is not legal there
    let extend = rng.gen_range(0..=3);
    let (tps, tms) = gen::walk(rng, &held, policy, extend);
    let at = tps.last().unwrap();
    let bad = match bad_move(rng, at) { Some(b) => b, None => return };
    let mut list = if rng.gen_bool(0.85) { l.clone() } else { Vec::new() };
    let from_other_root = list.is_empty() && !l.is_empty();
    if from_other_root { return; }
    list.extend(tms.iter().map(|m| m.uci()));
    list.push(bad.clone());
    if rng.gen_bool(0.3) { if let Some(m) = at.legal_moves().first() { list.push(m.uci()); } }
    let replay = json!({"kind":"c13e","fen":fen,"accepted":l,"rejected":list});
    if let Err(e) = sess.send(&Gui::Position { fen: fen.clone(), moves: list.clone() }) { rep.violation("engine-died-on-rejected-position", e, replay); return; }
    rep.eval();
    rep.count("rejected_position_commands");
    rep.count(&format!("legal_moves_before_the_rejected_one_{}", tms.len()));
    rep.distinct_hash(monlib::mix(held.key().h64(), monlib::fnv(format!("{:?}", list).as_bytes())));
    // the engine must still hold `held`
    // reference: a fresh engine given exactly the accepted command (same history — the repetition
    // rule makes the depth-1 score depend on it)
    let fresh = {
        let mut f = InProc::new();
        f.record_infos = false;
        match search(&mut f, Some((&fen, &l)), &GoSpec::depth(1)) {
            Ok(o) => crate::c09::Fresh { score: o.score_at_depth(1).and_then(reported) },
            Err(_) => { rep.inconclusive("fresh engine did not answer"); return; }
        }
    };
    match search(&mut sess, None, &GoSpec::depth(1)) {
        Ok(o) => {
            let legal: Vec<String> = held.legal_moves().iter().map(|m| m.uci()).collect();
            let sc = o.score_at_depth(1).and_then(reported);
            if o.best.as_ref().map_or(true, |b| !legal.contains(b)) {
                rep.violation(&format!("rejected-move-list-changed-the-engine-position:after-{}-legal-moves", tms.len()), format!("engine held {}; `position ... moves {:?}` was rejected at {:?}; the next go answered {:?}, not a legal move of the held position", held.to_fen(), list, bad, o.best), replay);
            } else if sc != fresh.score {
                rep.violation("rejected-move-list-changed-the-engine-position:score", format!("engine held {}; after a rejected move list the depth-1 score is {:?}, fresh engine {:?}", held.to_fen(), sc, fresh.score), replay);
            }
            if let Some(d) = o.board_dump().and_then(|d| crate::c09::parse_dump(d)) {
                if d.board != crate::c09::expected_board(&held) {
                    rep.violation("rejected-move-list-changed-the-engine-board", format!("engine held {}; board after the rejected list: {}", held.to_fen(), d.board), json!({"kind":"c13e","fen":fen,"accepted":l,"rejected":list}));
                }
            }
        }
        Err(e) if e.starts_with("watchdog") => rep.inconclusive("watchdog fired"),
        Err(e) => rep.violation("engine-died-after-rejected-position", e, replay),
    }
    if rep.samples.len() < 4 { rep.sample(json!({"held": held.to_fen(), "rejected_list_tail": list.iter().rev().take(4).collect::<Vec<_>>(), "bad_move": bad})); }
}

pub fn run(args: &monlib::Args, rep: &mut Report) {
    let mut rng = gen::rng(args.seed, args.shard, 113);
    let mut starts = gen::Starts::new(200, 30000, args.shard as usize * 23);
    let n = args.budget(4_000, 120_000) / args.nshards.max(1);
    for _ in 0..n { session(&mut rng, &mut starts, rep); }
}

pub fn replay(case: &monlib::Value, rep: &mut Report) {
    let strs = |v: &monlib::Value| -> Vec<String> { v.as_array().map(|a| a.iter().filter_map(|x| x.as_str().map(|s| s.to_string())).collect()).unwrap_or_default() };
    let fen = case["fen"].as_str().map(|s| s.to_string());
    let accepted = strs(&case["accepted"]);
    let rejected = strs(&case["rejected"]);
    let held = match position_of(&fen, &accepted) { Some(x) => x.0, None => { println!("replay: accepted list is not legal"); return; } };
    let mut sess = InProc::new();
    let _ = sess.send(&Gui::Position { fen: fen.clone(), moves: accepted.clone() });
    let _ = sess.send(&Gui::Position { fen: fen.clone(), moves: rejected.clone() });
    match search(&mut sess, None, &GoSpec::depth(1)) {
        Ok(o) => {
            let legal: Vec<String> = held.legal_moves().iter().map(|m| m.uci()).collect();
            println!("held {} ; next go answered {:?}", held.to_fen(), o.best);
            if o.best.as_ref().map_or(true, |b| !legal.contains(b)) { rep.violation("rejected-move-list-changed-the-engine-position", format!("{:?}", o.best), case.clone()); }
        }
        Err(e) => rep.violation("engine-died-after-rejected-position", e, case.clone()),
    }
}
