//! C10 — draw rules in search: threefold repetition and the fifty-move rule.

use inkayaku_board::Bitboard;
use inkayaku_engine_core::verif as hook;
use monlib::{guarded_mut, json, panic_sig, Report};
use rand::rngs::StdRng;
use rand::seq::SliceRandom;
use rand::Rng;
use refchess::gen;
use refchess::*;

use crate::common::*;
use crate::session::*;

// ---- layer 1: the counter against a model ------------------------------------------------------

fn model_count_ge3(hist: &[u64], i: usize, h: usize) -> bool {
    let lo = i.saturating_sub(h);
    let mut n = 0;
    let mut j = i as i64;
    while j >= lo as i64 {
        if hist[j as usize] == hist[i] { n += 1; }
        j -= 2;
    }
    n >= 3
}

pub fn layer1_random(rng: &mut StdRng, rep: &mut Report) {
    let symbols = rng.gen_range(2..=6);
    let alphabet: Vec<u64> = (0..symbols).map(|_| rng.gen::<u64>() | 1).collect();
    let len = rng.gen_range(5..=400);
    let offset = *[0usize, 0, 1, 7, 100, 4990, 5000, 60000].choose(rng).unwrap();
    let mut hist: Vec<u64> = Vec::with_capacity(len);
    for j in 0..len {
        // as in chess, a position cannot recur after exactly two plies
        loop {
            let s = *alphabet.choose(rng).unwrap();
            if j >= 2 && hist[j - 2] == s { if symbols == 2 && rng.gen_bool(0.5) { hist.push(rng.gen::<u64>() | 1); break; } continue; }
            hist.push(s);
            break;
        }
    }
    let queries: Vec<(usize, usize)> = (0..20).map(|_| { let i = rng.gen_range(0..len); (i, *[0usize, 1, 2, 3, 4, 5, 7, 8, 50, 99, 100, 400].choose(rng).unwrap().min(&(rng.gen_range(0..=len)))) }).collect();
    let h2 = hist.clone();
    let r = guarded_mut(|| {
        let mut hh = hook::History::new();
        for (j, v) in h2.iter().enumerate() { hh.set((offset + j) as u16, *v); }
        queries.iter().map(|(i, h)| hh.count_repetitions((offset + *i) as u16, *h as u16)).collect::<Vec<_>>()
    });
    match r {
        Err(pm) => rep.violation(&format!("history-{}", panic_sig(&pm)), format!("repetition history panicked (offset {}): {}", offset, pm), json!({"kind":"c10-l1","offset":offset,"history":hist})),
        Ok(counts) => {
            for ((i, h), c) in queries.iter().zip(counts) {
                rep.eval();
                rep.count("layer1_queries");
                // indices below the first recorded one are unset: restrict the model window to the history
                let want = model_count_ge3(&hist, *i, *h);
                if want { rep.count("layer1_threefold_cases"); }
                if (c >= 3) != want {
                    rep.violation(&format!("counter-{}", if want { "misses-threefold" } else { "phantom-threefold" }), format!("count_repetitions(index {}, window {}) = {} but the model says threefold={} (history of {} hashes over {} symbols, offset {})", i, h, c, want, len, symbols, offset), json!({"kind":"c10-l1","offset":offset,"history":hist,"index":i,"window":h}));
                }
                rep.distinct_hash(monlib::mix(monlib::fnv(format!("{:?}", &hist[i.saturating_sub(*h)..=*i]).as_bytes()), *h as u64));
            }
        }
    }
}

// ---- shuffle histories in lopsided low material ---------------------------------------------------

pub struct ShuffleGame {
    pub start: Pos,
    pub moves: Vec<Mv>,
    pub positions: Vec<Pos>,
}

/// Strong side: king + (Q | R | Q+R | R+R) [+ a far pawn]; weak side: bare king. Both sides shuffle
/// inside tiny square sets so that positions recur at varied distances.
pub fn shuffle_game(rng: &mut StdRng) -> Option<ShuffleGame> {
    for _ in 0..200 {
        let strong_white = rng.gen_bool(0.5);
        let s: i8 = if strong_white { 1 } else { -1 };
        let mut p = Pos { b: [0; 64], wtm: rng.gen_bool(0.5), castle: [false; 4], ep: None, half: rng.gen_range(0..30), full: *[1u32, 2, 40, 2499, 2500, 2600, 29000, 32740, 32760, 32766, 32767, 32768, 32769, 40000, 65530, 65536, 99000].choose(rng).unwrap() };
        let place = |p: &mut Pos, pc: i8, rng: &mut StdRng| -> Option<u8> { for _ in 0..50 { let c = rng.gen_range(0..64u8); if p.b[c as usize] == 0 && !(pc.abs() == P && (rank_of(c) == 0 || rank_of(c) == 7)) { p.b[c as usize] = pc; return Some(c); } } None };
        place(&mut p, s * K, rng)?;
        place(&mut p, -s * K, rng)?;
        let mat: &[i8] = [&[Q][..], &[R][..], &[Q, R][..], &[R, R][..]].choose(rng).unwrap();
        for k in mat { place(&mut p, s * k, rng)?; }
        let with_pawn = rng.gen_bool(0.4);
        if with_pawn { place(&mut p, s * P, rng)?; }
        if !p.is_legal_position() || p.legal_moves().is_empty() { continue; }
        // play: each side stays within a small set of squares per piece
        let mut positions = vec![p.clone()];
        let mut moves = Vec::new();
        let mut cur = p.clone();
        let len = rng.gen_range(4..=100);
        // home squares: for every non-pawn piece, its start square plus up to 2 more picked lazily
        let mut homes: std::collections::HashMap<(bool, i8), Vec<u8>> = Default::default();
        let mut ok = true;
        for _ in 0..len {
            let legal = cur.legal_moves();
            if legal.is_empty() { ok = false; break; }
            let quiet: Vec<Mv> = legal.iter().copied().filter(|m| !cur.is_capture(*m) && m.promo == 0).collect();
            if quiet.is_empty() { ok = false; break; }
            let pawn_push: Vec<Mv> = quiet.iter().copied().filter(|m| cur.b[m.from as usize].abs() == P).collect();
            let m = if !pawn_push.is_empty() && rng.gen_range(0..30) == 0 { *pawn_push.choose(rng).unwrap() } else {
                let cands: Vec<Mv> = quiet.iter().copied().filter(|m| {
                    let pc = cur.b[m.from as usize];
                    if pc.abs() == P { return false; }
                    let key = (pc > 0, pc.abs());
                    let set = homes.entry(key).or_insert_with(|| vec![m.from]);
                    set.contains(&m.to) || (set.contains(&m.from) && set.len() < 3)
                }).collect();
                let pick = if cands.is_empty() { *quiet.choose(rng).unwrap() } else { *cands.choose(rng).unwrap() };
                let pc = cur.b[pick.from as usize];
                let set = homes.entry((pc > 0, pc.abs())).or_insert_with(|| vec![pick.from]);
                if !set.contains(&pick.to) && set.len() < 3 { set.push(pick.to); }
                pick
            };
            cur = cur.make(m);
            // the weak king must never be able to capture, and nobody may be mated/stalemated
            if cur.legal_moves().iter().any(|x| cur.is_capture(*x)) || cur.legal_moves().is_empty() || cur.half >= 90 { ok = false; break; }
            moves.push(m);
            positions.push(cur.clone());
        }
        if !ok && moves.len() < 4 { continue; }
        return Some(ShuffleGame { start: p, moves, positions });
    }
    None
}

/// occurrences of `x` among `positions` (same key), counting only back to the last irreversible move
pub fn occurrences(positions: &[Pos], x: &Pos) -> usize {
    let mut n = 0;
    for q in positions.iter().rev() {
        if q.key() == x.key() { n += 1; }
        if q.half == 0 { break; }
    }
    n
}

pub fn layer1_real(g: &ShuffleGame, rep: &mut Report) {
    // hashes and clocks of a real game fed to the counter
    let r = guarded_mut(|| {
        let mut hh = hook::History::new();
        let mut out = Vec::new();
        for (j, q) in g.positions.iter().enumerate() {
            let bb = Bitboard::from_fen_string(&q.to_fen()).map_err(|e| format!("{:?}", e))?;
            // the slot the engine itself uses for this position
            let ply = bb.ply_clock();
            hh.set(ply, bb.calculate_zobrist_hash());
            out.push((j, hh.count_repetitions(ply, q.half.min(65535) as u16)));
        }
        Ok::<_, String>(out)
    });
    match r {
        Err(pm) => rep.violation(&format!("history-{}", panic_sig(&pm)), format!("repetition history panicked on a real game from {}: {}", g.start.to_fen(), pm), json!({"kind":"c10-game","fen":g.start.to_fen(),"moves":g.moves.iter().map(|m| m.uci()).collect::<Vec<_>>()})),
        Ok(Err(e)) => rep.violation("fen-rejected", e, json!({"kind":"c10-game","fen":g.start.to_fen()})),
        Ok(Ok(v)) => {
            for (j, c) in v {
                rep.eval();
                rep.count("layer1_real_positions");
                let want = occurrences(&g.positions[..=j], &g.positions[j]) >= 3;
                if want { rep.count("layer1_real_threefold"); }
                if (c >= 3) != want {
                    rep.violation(&format!("counter-on-game-{}", if want { "misses-threefold" } else { "phantom-threefold" }), format!("game from {}: after {} plies count_repetitions={} but occurrences>=3 is {}", g.start.to_fen(), j, c, want), json!({"kind":"c10-game","fen":g.start.to_fen(),"moves":g.moves.iter().map(|m| m.uci()).collect::<Vec<_>>(),"ply":j}));
                }
            }
        }
    }
}

// ---- layer 2: search valuation -------------------------------------------------------------------

pub fn layer2(sess: &mut dyn Driver, g: &ShuffleGame, rng: &mut StdRng, rep: &mut Report) {
    let contempt = hook::contempt().abs();
    let cut = rng.gen_range(0..=g.moves.len());
    let hist: Vec<String> = g.moves[..cut].iter().map(|m| m.uci()).collect();
    let positions = &g.positions[..=cut];
    let root = &positions[cut];
    let fen = Some(g.start.to_fen());
    let mut cands: Vec<Mv> = root.legal_moves().into_iter().filter(|m| !root.is_capture(*m) && m.promo == 0).collect();
    cands.shuffle(rng);
    // prefer moves that recreate an earlier position
    cands.sort_by_key(|m| std::cmp::Reverse(occurrences(positions, &root.make(*m))));
    for (k, m) in cands.into_iter().enumerate() {
        if k >= 3 { break; }
        let x = root.make(m);
        if x.legal_moves().is_empty() || x.legal_moves().iter().any(|y| x.is_capture(*y) || y.promo != 0) || x.half >= 99 { continue; }
        // lopsided: the static value must be far from the draw band
        let st = static_eval_white(&x, true);
        if st.abs() < 300 { continue; }
        let c = occurrences(positions, &x) + 1;
        let replay = json!({"kind":"c10-l2","fen":g.start.to_fen(),"moves":hist,"searchmove":m.uci()});
        let go = GoSpec { depth: Some(1), searchmoves: vec![m.uci()], ..Default::default() };
        let out = match search(sess, Some((&fen, &hist)), &go) {
            Ok(o) => o,
            Err(e) if e.starts_with("watchdog") => { rep.inconclusive("watchdog fired"); continue; }
            Err(e) => { rep.violation("search-failed", format!("position {} moves {:?}, go depth 1 searchmoves {}: {}", g.start.to_fen(), hist, m.uci(), e), replay); return; }
        };
        rep.eval();
        rep.count(&format!("layer2_occurrence_count_{}", c.min(4)));
        rep.max("max_history_length", hist.len() as u64);
        rep.distinct_hash(monlib::mix(monlib::fnv(format!("{}{:?}", g.start.to_fen(), hist).as_bytes()), m.from as u64 * 64 + m.to as u64));
        let sc = out.score_at_depth(1).and_then(reported);
        match sc {
            Some(Reported::Cp(v)) => {
                let draw_valued = v.abs() <= contempt;
                let material_valued = v.abs() >= 200;
                if c >= 3 && !draw_valued {
                    rep.violation("repetition-not-valued-as-draw", format!("after {:?} from {}, {} creates the {}th occurrence but scores cp {}", hist, g.start.to_fen(), m.uci(), c, v), replay);
                } else if c < 3 && !material_valued {
                    rep.violation(&format!("draw-valued-without-threefold:occurrences-{}", c), format!("after {:?} from {}, {} creates occurrence #{} only, static value {}, but scores cp {}", hist, g.start.to_fen(), m.uci(), c, st, v), replay);
                }
                if rep.samples.len() < 6 && c >= 3 { rep.sample(json!({"fen": g.start.to_fen(), "history": hist, "searchmove": m.uci(), "occurrences": c, "score_cp": v})); }
            }
            Some(Reported::Mate(_)) => rep.inconclusive("mate score in a shuffle position"),
            None => rep.violation("no-score", format!("no depth-1 score for {} moves {:?} searchmoves {}", g.start.to_fen(), hist, m.uci()), replay),
        }
        // The same root given as a bare FEN (no history) on the same engine instance, optionally after
        // ucinewgame: whatever was supplied or searched before must not count. The position after m
        // has now occurred once only, so the value must be material.
        if c >= 2 && root.half > 0 {
            if rng.gen_bool(0.5) { let _ = sess.send(&Gui::NewGame); }
            let bare = Some(root.to_fen());
            let replay = json!({"kind":"c10-l2-bare","fen":g.start.to_fen(),"moves":hist,"searchmove":m.uci(),"bare_fen":root.to_fen()});
            if let Ok(out) = search(sess, Some((&bare, &[])), &go) {
                rep.eval();
                rep.count("layer2_bare_fen_after_history");
                if let Some(Reported::Cp(v)) = out.score_at_depth(1).and_then(reported) {
                    if v.abs() < 200 {
                        rep.violation("earlier-position-command-counts-as-history", format!("after `position fen {} moves {:?}` the same root was given again as the bare FEN {} (half-move clock {}): {} now creates the first occurrence, static value {}, but scores cp {}", g.start.to_fen(), hist, root.to_fen(), root.half, m.uci(), st, v), replay);
                    }
                }
            }
        }
    }
}

// ---- layer 3: fifty-move threshold -----------------------------------------------------------------

fn quiet_tree(p: &Pos, d: u32) -> bool {
    // no capture / promotion possible and no terminal position within d plies
    let ms = p.legal_moves();
    if ms.is_empty() { return false; }
    if d == 0 { return !ms.iter().any(|m| p.is_capture(*m) || m.promo != 0); }
    ms.iter().all(|m| !p.is_capture(*m) && m.promo == 0 && quiet_tree(&p.make(*m), d - 1))
}

pub fn layer3(sess: &mut dyn Driver, rng: &mut StdRng, rep: &mut Report, h: u32, fixed_d: Option<u32>) {
    // pawnless lopsided material
    for _ in 0..50 {
        let strong_white = rng.gen_bool(0.5);
        let s: i8 = if strong_white { 1 } else { -1 };
        let mut p = Pos { b: [0; 64], wtm: rng.gen_bool(0.5), castle: [false; 4], ep: None, half: h, full: (h / 2 + rng.gen_range(1..60)).max(1) };
        let mat: &[i8] = [&[Q][..], &[R][..], &[Q, R][..], &[Q, Q][..]].choose(rng).unwrap();
        let mut okp = true;
        for pc in [s * K, -s * K].iter().chain(mat.iter().map(|k| s * k).collect::<Vec<_>>().iter()) {
            let mut placed = false;
            for _ in 0..50 { let c = rng.gen_range(0..64u8); if p.b[c as usize] == 0 { p.b[c as usize] = *pc; placed = true; break; } }
            if !placed { okp = false; }
        }
        if rng.gen_bool(0.3) { let c = rng.gen_range(0..64u8); if p.b[c as usize] == 0 { p.b[c as usize] = -s * N; } }
        let d = fixed_d.unwrap_or_else(|| rng.gen_range(1..=2u32));
        if !okp || !p.is_legal_position() || !quiet_tree(&p, d) { continue; }
        if static_eval_white(&Pos { half: 0, ..p.clone() }, true).abs() < 400 { continue; }
        let fen = p.to_fen();
        let replay = json!({"kind":"c10-l3","fen":fen,"depth":d});
        let out = match search(sess, Some((&Some(fen.clone()), &[])), &GoSpec::depth(d as u64)) {
            Ok(o) => o,
            Err(e) if e.starts_with("watchdog") => { rep.inconclusive("watchdog fired"); return; }
            Err(e) => { rep.violation("search-failed", format!("go depth {} on {}: {}", d, fen, e), replay); return; }
        };
        rep.eval();
        rep.count("layer3_searches");
        rep.distinct_hash(monlib::mix(p.key().h64(), (h as u64) << 8 | d as u64));
        match out.score_at_depth(d).and_then(reported) {
            Some(Reported::Cp(v)) => {
                if h + d < 100 {
                    rep.count("layer3_below_threshold");
                    if v.abs() < 300 {
                        rep.violation(&format!("fifty-move-draw-too-early:clock-{}", if h + d < 50 { "<50" } else { "50..99" }), format!("{} (half-move clock {}, depth {}): leaf clock {} < 100 but score cp {}", fen, h, d, h + d, v), replay);
                    }
                } else {
                    rep.count("layer3_at_or_above_threshold");
                    if v.abs() <= hook::contempt().abs() { rep.count("fifty_rule_applied"); }
                }
            }
            Some(Reported::Mate(_)) => rep.count("layer3_mate_scores"),
            None => rep.violation("no-score", format!("no score for go depth {} on {}", d, fen), replay),
        }
        return;
    }
}

// ---- layer 4: the third occurrence is completed inside the searched line ----------------------------

/// The side to move is materially lost but has a forced four-ply perpetual-check cycle; the cycle
/// has been played once already (history), so repeating it reaches the root position for the third
/// time at ply 4 of the search. A depth >= 4 search must therefore not score worse than the draw value.
pub fn layer4(sess: &mut dyn Driver, rng: &mut StdRng, rep: &mut Report) {
    let (p, cycle) = match gen::perpetual_position(rng) { Some(x) => x, None => { rep.inconclusive("no perpetual position found"); return; } };
    let contempt = hook::contempt().abs();
    let st = eval_stm(&p);
    if st > -500 { return; }
    let hist: Vec<String> = cycle.iter().map(|m| m.uci()).collect();
    let depth = rng.gen_range(4..=5u64);
    let replay = json!({"kind":"c10-l4","fen":p.to_fen(),"moves":hist,"depth":depth});
    let out = match search(sess, Some((&Some(p.to_fen()), &hist)), &GoSpec::depth(depth)) {
        Ok(o) => o,
        Err(e) if e.starts_with("watchdog") => { rep.inconclusive("watchdog fired"); return; }
        Err(e) => { rep.violation("search-failed", format!("{} moves {:?} go depth {}: {}", p.to_fen(), hist, depth, e), replay); return; }
    };
    rep.eval();
    rep.count("layer4_perpetual_checks");
    rep.distinct_hash(monlib::mix(p.key().h64(), 4000 + depth));
    match out.score_at_depth(depth as u32).and_then(reported) {
        Some(Reported::Cp(v)) => {
            if v < -contempt {
                rep.violation("repetition-inside-line-not-valued-as-draw", format!("{} after {:?} (root occurred twice; static value {} for the side to move): repeating the forced cycle reaches the third occurrence at ply 4, but go depth {} scores cp {}", p.to_fen(), hist, st, depth, v), replay);
            } else if v.abs() <= contempt {
                rep.count("layer4_scored_as_draw");
            }
            if rep.samples.len() < 8 { rep.sample(json!({"fen": p.to_fen(), "history": hist, "depth": depth, "static_value_for_side_to_move": st, "score_cp": v})); }
        }
        Some(Reported::Mate(m)) => { if m < 0 { rep.violation("repetition-inside-line-not-valued-as-draw", format!("{} after {:?}: scores mate {}", p.to_fen(), hist, m), replay); } }
        None => rep.violation("no-score", format!("no depth-{} score for {} moves {:?}", depth, p.to_fen(), hist), replay),
    }
}

/// a mate delivered on the 100th ply still scores as mate
pub fn mate_at_threshold(sess: &mut dyn Driver, rng: &mut StdRng, rep: &mut Report) {
    for _ in 0..200 {
        let mut p = gen::mating_material_position(rng);
        if p.b.iter().any(|x| x.abs() == P) { continue; }
        p.half = *[98u32, 99, 99, 100, 120].choose(rng).unwrap();
        p.full = p.full.max(p.half / 2 + 1);
        if refchess::search::forced_mate_plies(&p, 1) != Some(1) { continue; }
        let fen = p.to_fen();
        let replay = json!({"kind":"c10-mate99","fen":fen});
        if let Ok(out) = search(sess, Some((&Some(fen.clone()), &[])), &GoSpec::depth(1)) {
            rep.eval();
            rep.count("mate_on_threshold_ply_checks");
            let s = out.score_at_depth(1).and_then(reported);
            if s != Some(Reported::Mate(1)) {
                rep.violation("mate-on-hundredth-ply-not-mate", format!("{}: mate in 1 with half-move clock {} scored {:?}", fen, p.half, s), replay);
            }
        }
        return;
    }
}

pub fn run(args: &monlib::Args, rep: &mut Report) {
    let mut rng = gen::rng(args.seed, args.shard, 10);
    let n1 = args.budget(160_000, 4_000_000) / args.nshards.max(1);
    for _ in 0..n1 { layer1_random(&mut rng, rep); }
    let mut sess = InProc::new();
    sess.record_infos = false;
    let n2 = args.budget(24_000, 600_000) / args.nshards.max(1);
    for _ in 0..n2 {
        if let Some(g) = shuffle_game(&mut rng) {
            layer1_real(&g, rep);
            layer2(&mut sess, &g, &mut rng, rep);
            sess.events.clear();
        }
    }
    // all half-move clock values 0..150, several positions each
    let reps = args.budget(6, 120);
    for k in 0..reps {
        for h in 0..=150u32 {
            if (h as u64 + k) % args.nshards.max(1) != args.shard { continue; }
            layer3(&mut sess, &mut rng, rep, h, Some(1 + (k as u32 % 2)));
            sess.events.clear();
        }
    }
    for _ in 0..args.budget(640, 20_000) / args.nshards.max(1) { mate_at_threshold(&mut sess, &mut rng, rep); }
    for _ in 0..args.budget(1_600, 60_000) / args.nshards.max(1) { layer4(&mut sess, &mut rng, rep); sess.events.clear(); }
}

pub fn replay(case: &monlib::Value, rep: &mut Report) {
    let mut rng = gen::rng(1, 0, 0);
    let mut sess = InProc::new();
    let strs = |v: &monlib::Value| -> Vec<String> { v.as_array().map(|a| a.iter().filter_map(|x| x.as_str().map(|s| s.to_string())).collect()).unwrap_or_default() };
    match case["kind"].as_str().unwrap_or("") {
        "c10-l1" => {
            let hist: Vec<u64> = case["history"].as_array().unwrap().iter().map(|v| v.as_u64().unwrap()).collect();
            let off = case["offset"].as_u64().unwrap_or(0) as usize;
            let (i, h) = (case["index"].as_u64().unwrap_or(0) as usize, case["window"].as_u64().unwrap_or(0) as usize);
            let mut hh = hook::History::new();
            for (j, v) in hist.iter().enumerate() { hh.set((off + j) as u16, *v); }
            let c = hh.count_repetitions((off + i) as u16, h as u16);
            let want = model_count_ge3(&hist, i, h);
            if (c >= 3) != want { rep.violation("counter", format!("count {} model threefold {}", c, want), case.clone()); }
        }
        "c10-game" | "c10-l2" => {
            let start = Pos::from_fen(case["fen"].as_str().unwrap()).unwrap();
            let mut positions = vec![start.clone()];
            let mut moves = Vec::new();
            for u in strs(&case["moves"]) { let m = Mv::from_uci(&u).unwrap(); let n = positions.last().unwrap().make(m); positions.push(n); moves.push(m); }
            let g = ShuffleGame { start, moves, positions };
            layer1_real(&g, rep);
            if let Some(sm) = case["searchmove"].as_str() {
                // deterministic single query
                let root = g.positions.last().unwrap();
                let m = Mv::from_uci(sm).unwrap();
                let x = root.make(m);
                let c = occurrences(&g.positions, &x) + 1;
                let hist: Vec<String> = g.moves.iter().map(|m| m.uci()).collect();
                let go = GoSpec { depth: Some(1), searchmoves: vec![m.uci()], ..Default::default() };
                if let Ok(out) = search(&mut sess, Some((&Some(g.start.to_fen()), &hist)), &go) {
                    if let Some(Reported::Cp(v)) = out.score_at_depth(1).and_then(reported) {
                        println!("occurrences {} score cp {}", c, v);
                        if (c >= 3) != (v.abs() <= hook::contempt().abs()) { rep.violation("repetition-valuation", format!("occurrences {} score {}", c, v), case.clone()); }
                    }
                }
            }
        }
        "c10-l3" => {
            let p = Pos::from_fen(case["fen"].as_str().unwrap()).unwrap();
            let d = case["depth"].as_u64().unwrap_or(1) as u32;
            if let Ok(out) = search(&mut sess, Some((&Some(p.to_fen()), &[])), &GoSpec::depth(d as u64)) {
                if let Some(Reported::Cp(v)) = out.score_at_depth(d).and_then(reported) {
                    println!("half {} depth {} score cp {}", p.half, d, v);
                    if p.half + d < 100 && v.abs() < 300 { rep.violation("fifty-move-draw-too-early", format!("cp {}", v), case.clone()); }
                }
            }
        }
        "c10-l2-bare" => {
            let hist = strs(&case["moves"]);
            let sm = case["searchmove"].as_str().unwrap_or("").to_string();
            let go = GoSpec { depth: Some(1), searchmoves: vec![sm], ..Default::default() };
            let _ = search(&mut sess, Some((&case["fen"].as_str().map(|s| s.to_string()), &hist)), &go);
            let bare = case["bare_fen"].as_str().map(|s| s.to_string());
            if let Ok(out) = search(&mut sess, Some((&bare, &[])), &go) {
                if let Some(Reported::Cp(v)) = out.score_at_depth(1).and_then(reported) {
                    println!("bare FEN after history: score cp {}", v);
                    if v.abs() < 200 { rep.violation("earlier-position-command-counts-as-history", format!("cp {}", v), case.clone()); }
                }
            }
        }
        "c10-l4" => {
            let p = Pos::from_fen(case["fen"].as_str().unwrap()).unwrap();
            let hist = strs(&case["moves"]);
            let d = case["depth"].as_u64().unwrap_or(4);
            if let Ok(out) = search(&mut sess, Some((&Some(p.to_fen()), &hist)), &GoSpec::depth(d)) {
                match out.score_at_depth(d as u32).and_then(reported) {
                    Some(Reported::Cp(v)) => { println!("score cp {}", v); if v < -hook::contempt().abs() { rep.violation("repetition-inside-line-not-valued-as-draw", format!("cp {}", v), case.clone()); } }
                    other => println!("{:?}", other),
                }
            }
        }
        _ => mate_at_threshold(&mut sess, &mut rng, rep),
    }
}
