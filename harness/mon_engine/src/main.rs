//! mon_engine — monitors for C07 C08 C09 C10 C11 C16 C18 (engine-level properties).

mod c07;
mod c08;
mod c09;
mod c10;
mod c11;
mod c13e;
mod c16;
mod c18;
mod common;
mod session;
mod sessions;

use monlib::{json, Args, Report};
use refchess::gen;

fn main() {
    let args = Args::parse();
    monlib::quiet_panics();
    let prop = args.cmd.clone();
    let mut rep = Report::new(&prop.to_uppercase());
    if let Some(path) = &args.replay {
        let case = monlib::read_replay(path);
        let case = if case.get("case").is_some() { case["case"].clone() } else { case };
        match prop.as_str() {
            "c07" => c07::replay(&case, &mut rep),
            "c16" => c16::replay(&case, &mut rep),
            "c08" => c08::replay(&case, &mut rep),
            "c09" => c09::replay(&case, &mut rep),
            "c10" => c10::replay(&case, &mut rep),
            "c13e" => c13e::replay(&case, &mut rep),
            "c11" => c11::replay(&case, &mut rep),
            "c18" => c18::replay(&case, &mut rep),
            _ => panic!("unknown"),
        }
        println!("replay: {} violation(s)", rep.violation_count);
        for v in &rep.violations { println!("  {} :: {}", v.sig, v.detail); }
        std::process::exit(if rep.violation_count > 0 { 1 } else { 0 });
    }
    match prop.as_str() {
        "c07" => c07::run(&args, &mut rep),
        "c16" => c16::run(&args, &mut rep),
        "c08" => c08::run(&args, &mut rep),
        "c09" => c09::run(&args, &mut rep),
        "c10" => c10::run(&args, &mut rep),
        "c13e" => c13e::run(&args, &mut rep),
        "c11" => c11::run(&args, &mut rep),
        "c18" => {
            let mut rng = gen::rng(args.seed, args.shard, 18);
            let n = args.budget(1_600_000, 32_000_000) / args.nshards.max(1);
            for _ in 0..n { c18::random_case(&mut rng, &mut rep); }
            // large capacities (power-of-two boundaries of the float fill level, the engine's own 10,000,000)
            let large: &[(usize, usize)] = if args.thorough { &[(1 << 24, 5), ((1 << 24) + 1, 3), (10_000_000, 7), (1 << 25, 2), (100_000, 100_000), ((1 << 23) + 1, 9)] } else { &[(1 << 24, 5), (10_000_000, 7), (65_536, 65_536)] };
            for (i, (cap, extra)) in large.iter().enumerate() {
                if i as u64 % args.nshards.max(1) == args.shard { c18::large_capacity_case(*cap, *extra, &mut rep); }
            }
            // capacities that can never be reached (an "unbounded" table, boundaries of the signed and 32-bit ranges)
            let huge: [usize; 12] = [usize::MAX, usize::MAX - 1, isize::MAX as usize, isize::MAX as usize + 1, (1usize << 63) + 12345, 1 << 62, 1 << 32, (1 << 32) + 1, u32::MAX as usize, 1 << 31, i32::MAX as usize, (i32::MAX as usize) + 1];
            for (i, cap) in huge.iter().enumerate() {
                if (i as u64 + 3) % args.nshards.max(1) == args.shard { c18::unreachable_capacity_case(*cap, 3000, &mut rep); }
            }
        }
        other => {
            eprintln!("unknown monitor {:?}", other);
            std::process::exit(2);
        }
    }
    rep.extra.insert("seed".into(), json!(args.seed));
    rep.finish(&args);
    // the in-process engine threads are joined by Drop; make sure we leave
    std::process::exit(0);
}
