fn main(){}
