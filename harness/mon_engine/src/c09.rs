//! C09 — an interrupted search leaves the engine's position untouched.
//!
//! Interruption points are enumerated through the test point at the search's only suspension
//! point (the mailbox/clock poll): poll interval 1 makes every negamax node a poll point and
//! `abort_at_node(n)` makes the search behave as if its move time expired at the n-th poll.

use std::time::Duration;

use inkayaku_board::Bitboard;
use inkayaku_engine_core::verif as hook;
use monlib::{json, Report};
use rand::rngs::StdRng;
use rand::Rng;
use refchess::gen;
use refchess::*;

use crate::common::*;
use crate::session::*;

#[derive(Clone, Debug, PartialEq, Eq)]
pub struct Dump {
    pub board: String,
    pub abort_node: u64,
    pub ply: u64,
    pub iter: u64,
}

pub fn parse_dump(s: &str) -> Option<Dump> {
    let (board, tail) = s.split_once(" abort-node ")?;
    let t: Vec<&str> = tail.split(' ').collect();
    Some(Dump { board: board.to_string(), abort_node: t.first()?.parse().ok()?, ply: t.get(2)?.parse().ok()?, iter: t.get(4)?.parse().ok()? })
}

/// the dump a board holding exactly `p` must produce (same format as the hook's)
pub fn expected_board(p: &Pos) -> String {
    use inkayaku_board::constants::{BISHOP, KING, KNIGHT, PAWN, QUEEN, ROOK};
    let b = Bitboard::from_fen_string(&p.to_fen()).expect("fen");
    let side = |s: &inkayaku_board::PlayerState| [PAWN, KNIGHT, BISHOP, ROOK, QUEEN, KING].iter().map(|&pc| format!("{:x}", s.occupancy(pc))).collect::<Vec<_>>().join(",");
    format!("verif-board w {} b {} castle {}{}{}{} turn {} ep {} half {} full {}", side(&b.white), side(&b.black), u8::from(b.white.king_side_castle), u8::from(b.white.queen_side_castle), u8::from(b.black.king_side_castle), u8::from(b.black.queen_side_castle), b.turn, b.en_passant_square_shift, b.halfmove_clock, b.fullmove_clock)
}

pub struct Fresh {
    pub score: Option<Reported>,
}

pub fn fresh_depth1(p: &Pos) -> Option<Fresh> {
    let mut s = InProc::new();
    s.record_infos = false;
    let o = search(&mut s, Some((&Some(p.to_fen()), &[])), &GoSpec::depth(1)).ok()?;
    Some(Fresh { score: o.score_at_depth(1).and_then(reported) })
}

/// observations after one interrupted search; returns false if the engine is unusable afterwards
#[allow(clippy::too_many_arguments)]
pub fn observe_interrupted(sess: &mut dyn Driver, p: &Pos, out: &Outcome, fresh: &Fresh, rep: &mut Report, replay: &monlib::Value, how: &str, probe: bool) -> bool {
    let legal: Vec<String> = p.legal_moves().iter().map(|m| m.uci()).collect();
    let want_board = expected_board(p);
    // (a) board dump
    if let Some(d) = out.board_dump().and_then(|d| parse_dump(d)) {
        if d.abort_node > 0 {
            rep.count("aborts_observed");
            rep.distinct_hash(monlib::mix(d.iter, d.ply));
            rep.max("max_ply_at_abort", d.ply);
            rep.max("max_iteration_at_abort", d.iter);
            rep.count(&format!("abort_at_ply_{}", d.ply.min(9)));
        }
        if d.board != want_board {
            rep.violation(&format!("board-changed-by-interrupted-search:{}", how), format!("after a search of {} interrupted at node {} (ply {}, iteration {}) the search board is\n   {}\nexpected\n   {}", p.to_fen(), d.abort_node, d.ply, d.iter, d.board, want_board), replay.clone());
        }
        // (c) the answer comes from the last completed iteration
        if d.abort_node > 0 {
            let completed: Vec<&InfoEv> = out.infos.iter().filter(|i| i.pv.is_some() && i.depth.is_some()).collect();
            match completed.last() {
                Some(last) => {
                    let head = last.pv.as_ref().and_then(|pv| pv.first().cloned());
                    if out.best != head {
                        rep.violation("interrupted-answer-not-from-last-completed-iteration", format!("{}: interrupted at node {}; bestmove {:?} but the last completed iteration's pv starts with {:?}", p.to_fen(), d.abort_node, out.best, head), replay.clone());
                    }
                    if out.best.as_ref().map_or(true, |b| !legal.contains(b)) {
                        rep.violation("interrupted-answer-illegal", format!("{}: bestmove {:?}", p.to_fen(), out.best), replay.clone());
                    }
                    rep.count("interrupted_after_a_completed_iteration");
                }
                None => {
                    // interrupted inside the very first iteration: only reachable through the test
                    // point (the real poll happens every 100 000 nodes); nothing to take a move from
                    rep.count("interrupted_inside_first_iteration");
                }
            }
        }
    } else if !sess.is_app() {
        rep.inconclusive("no board dump received (hooks off?)");
    }
    if !probe { return true; }
    // (b) follow-up `go depth 1` without `position`
    let o2 = match search(sess, None, &GoSpec::depth(1)) {
        Ok(o) => o,
        Err(e) if e.starts_with("watchdog") => { rep.inconclusive("watchdog fired"); return false; }
        Err(e) => { rep.violation("engine-dead-after-interrupted-search", format!("{}: {}", p.to_fen(), e), replay.clone()); return false; }
    };
    rep.eval();
    rep.count("probe_searches");
    let sc = o2.score_at_depth(1).and_then(reported);
    if o2.best.as_ref().map_or(true, |b| !legal.contains(b)) {
        rep.violation(&format!("next-go-answers-move-illegal-in-held-position:{}", how), format!("{}: after an interrupted search `go depth 1` answered {:?}", p.to_fen(), o2.best), replay.clone());
    } else if sc != fresh.score {
        rep.violation(&format!("next-go-score-differs-from-fresh-engine:{}", how), format!("{}: after an interrupted search depth-1 score {:?}, fresh engine {:?}", p.to_fen(), sc, fresh.score), replay.clone());
    }
    if let Some(d) = o2.board_dump().and_then(|d| parse_dump(d)) {
        if d.board != want_board {
            rep.violation("board-changed-after-probe", format!("{}: board after probe {}", p.to_fen(), d.board), replay.clone());
        }
    }
    true
}

/// what every completed iteration of an uninterrupted search of (p, depth) reports, on a fresh engine
pub fn reference_iterations(p: &Pos, depth: u64) -> Option<Vec<(u32, Option<String>, Option<Reported>)>> {
    let mut s = InProc::new();
    s.record_infos = false;
    let o = search(&mut s, Some((&Some(p.to_fen()), &[])), &GoSpec::depth(depth)).ok()?;
    let mut v: Vec<(u32, Option<String>, Option<Reported>)> = Vec::new();
    for i in &o.infos {
        if let (Some(d), Some(pv)) = (i.depth, &i.pv) {
            if v.last().map_or(true, |l| l.0 != d) { v.push((d, pv.first().cloned(), reported(i))); }
        }
    }
    Some(v)
}

/// Every interruption point n = 1..T of `go depth D` on p (stride > 1 samples them), for both
/// ways the search can be interrupted at a poll: `expiry` (move time found expired: the poll
/// returns at once) and `stop` (a stop message found in the mailbox: the flag is raised and the
/// search carries on until it next looks at it). A fresh engine is used for every point so that
/// the interrupted run is identical to the uninterrupted reference run up to the interruption.
pub fn enumerate(p: &Pos, depth: u64, stride: u64, rep: &mut Report) {
    let fen = p.to_fen();
    let fresh = match fresh_depth1(p) { Some(f) => f, None => { rep.inconclusive("fresh engine did not answer"); return; } };
    hook::set_poll_interval(1);
    let reference = match reference_iterations(p, depth) { Some(r) => r, None => { hook::set_poll_interval(0); rep.inconclusive("reference search did not answer"); return; } };
    let mut points = 0u64;
    for kind in ["expiry", "stop"] {
        let mut n = 1u64;
        loop {
            let replay = json!({"kind":"c09-enum","fen":fen,"depth":depth,"abort_at":n,"how":kind});
            let mut sess = InProc::new();
            sess.record_infos = false;
            if kind == "expiry" { hook::abort_at_node(n); } else { hook::stop_at_node(n); }
            let out = search(&mut sess, Some((&Some(fen.clone()), &[])), &GoSpec::depth(depth));
            hook::abort_at_node(0);
            hook::stop_at_node(0);
            let out = match out {
                Ok(o) => o,
                Err(e) if e.starts_with("watchdog") => { rep.inconclusive("watchdog fired"); break; }
                Err(e) => { rep.violation("engine-dead-during-interrupted-search", format!("{} depth {} {} at {}: {}", fen, depth, kind, n, e), replay); break; }
            };
            let dump = out.board_dump().and_then(|d| parse_dump(d));
            let aborted = dump.as_ref().map_or(false, |d| d.abort_node > 0);
            if !aborted {
                rep.add("sum_nodes_of_enumerated_searches", n - 1);
                rep.max("max_nodes_of_an_enumerated_search", n - 1);
                break;
            }
            rep.eval();
            points += 1;
            rep.count(&format!("interruptions_by_{}", kind));
            // the answer must be exactly what the last completed iteration of the reference run reported
            let d = dump.unwrap();
            if d.iter >= 2 {
                let want = reference.iter().find(|r| r.0 as u64 == d.iter - 1);
                let last = out.infos.iter().rev().find(|i| i.depth.is_some());
                let claimed = last.and_then(|i| i.depth).unwrap_or(0) as u64;
                if claimed != d.iter - 1 {
                    rep.violation(&format!("interrupted-search-claims-wrong-depth:{}", kind), format!("{}: interrupted ({}) in iteration {} at node {}, but the final info line claims depth {}", fen, kind, d.iter, d.abort_node, claimed), replay.clone());
                }
                if let Some((_, best, score)) = want {
                    let got_score = out.infos.iter().rev().find(|i| i.pv.is_some()).and_then(reported);
                    if &out.best != best || &got_score != score {
                        rep.violation(&format!("interrupted-answer-differs-from-last-completed-iteration:{}", kind), format!("{}: interrupted ({}) in iteration {} at node {}: answered {:?} / {:?}; iteration {} of the uninterrupted search gave {:?} / {:?}", fen, kind, d.iter, d.abort_node, out.best, got_score, d.iter - 1, best, score), replay.clone());
                    }
                    rep.count("answers_compared_with_reference_iteration");
                }
            }
            if !observe_interrupted(&mut sess, p, &out, &fresh, rep, &replay, &format!("enumerated-{}", kind), true) { break; }
            n += stride;
        }
    }
    hook::set_poll_interval(0);
    rep.add("interruption_points_enumerated", points);
    rep.count("searches_enumerated");
    if stride == 1 { rep.count("searches_enumerated_completely"); }
    if rep.samples.len() < 5 {
        rep.sample(json!({"fen": fen, "depth": depth, "interruption_points": points, "stride": stride, "iterations": reference.iter().map(|r| format!("depth {} best {:?} score {:?}", r.0, r.1, r.2)).collect::<Vec<_>>()}));
    }
}

/// 2-5 consecutive interrupted searches at random points, then the probe
pub fn consecutive(p: &Pos, depth: u64, rng: &mut StdRng, rep: &mut Report, total_nodes_hint: u64) {
    let fen = p.to_fen();
    let fresh = match fresh_depth1(p) { Some(f) => f, None => return };
    let mut sess = InProc::new();
    sess.record_infos = false;
    hook::set_poll_interval(1);
    let k = rng.gen_range(2..=5);
    let points: Vec<u64> = (0..k).map(|_| rng.gen_range(2..total_nodes_hint.max(3))).collect();
    let replay = json!({"kind":"c09-consecutive","fen":fen,"depth":depth,"abort_points":points});
    let _ = sess.send(&Gui::Position { fen: Some(fen.clone()), moves: vec![] });
    for (i, n) in points.iter().enumerate() {
        if (i + points.len()) % 2 == 0 { hook::abort_at_node(*n); } else { hook::stop_at_node(*n); }
        let out = search(&mut sess, None, &GoSpec::depth(depth));
        hook::abort_at_node(0);
        hook::stop_at_node(0);
        match out {
            Ok(o) => { rep.eval(); if !observe_interrupted(&mut sess, p, &o, &fresh, rep, &replay, "consecutive", i + 1 == points.len()) { break; } }
            Err(e) if e.starts_with("watchdog") => { rep.inconclusive("watchdog fired"); break; }
            Err(e) => { rep.violation("engine-dead-during-interrupted-search", format!("{}: {}", fen, e), replay.clone()); break; }
        }
    }
    hook::set_poll_interval(0);
    rep.count("consecutive_interruption_runs");
}

/// un-hooked path: default poll interval, real stop / movetime expiry / quit
pub fn real_schedule(sess_factory: &mut dyn FnMut() -> Option<Box<dyn Driver>>, p: &Pos, rng: &mut StdRng, rep: &mut Report) {
    let fen = p.to_fen();
    let fresh = match fresh_depth1(p) { Some(f) => f, None => return };
    let mut sess = match sess_factory() { Some(s) => s, None => { rep.inconclusive("could not start engine"); return; } };
    let app = sess.is_app();
    let how = if app { "real-schedule-app" } else { "real-schedule" };
    let rounds = rng.gen_range(1..=3);
    let _ = sess.send(&Gui::Position { fen: Some(fen.clone()), moves: vec![] });
    for _ in 0..rounds {
        let (go, delay_us) = match rng.gen_range(0..3) {
            0 => (GoSpec { movetime: Some(rng.gen_range(1..=20)), ..Default::default() }, None),
            _ => (GoSpec { infinite: true, ..Default::default() }, Some(*[0u64, 50, 1000, 20_000, 150_000, 400_000].get(rng.gen_range(0..6)).unwrap())),
        };
        let replay = json!({"kind":"c09-real","fen":fen,"go":Gui::Go(go.clone()).text(),"stop_after_us":delay_us,"app":app});
        if sess.send(&Gui::Go(go.clone())).is_err() { rep.violation("engine-dead", format!("{}", fen), replay); return; }
        if let Some(us) = delay_us {
            std::thread::sleep(Duration::from_micros(us));
            let _ = sess.send(&Gui::Stop);
            rep.count(&format!("stop_after_{}us", us));
            // a GUI that does not wait for the answer: the same position again right behind the stop,
            // so that both messages are found in the mailbox at one poll
            if rng.gen_bool(0.4) {
                let _ = sess.send(&Gui::Position { fen: Some(fen.clone()), moves: vec![] });
                rep.count("stop_and_same_position_back_to_back");
            }
            // ... or announces the next game right behind the stop (both found at one poll): the stop
            // still ends this search
            if rng.gen_bool(0.3) {
                let _ = sess.send(&Gui::NewGame);
                rep.count("stop_and_ucinewgame_back_to_back");
            }
        } else {
            rep.count("movetime_expiry");
        }
        let out = match sess.await_bestmove(WATCHDOG) {
            Ok(o) => collect(o),
            Err((WaitErr::Timeout, _)) => {
                // Nothing for the whole watchdog period (minutes; a poll is due every 100 000 nodes,
                // i.e. every fraction of a second). If a stop had been sent and a SECOND stop now ends
                // the search at once, the first one was lost; otherwise the run says nothing.
                if delay_us.is_some() {
                    let _ = sess.send(&Gui::Stop);
                    if sess.await_bestmove(Duration::from_secs(20)).is_ok() {
                        rep.violation(&format!("stop-lost:{}", how), format!("{}: `go infinite` + stop (+ what followed it back to back) was not answered within {} s; a second stop was answered at once", fen, WATCHDOG.as_secs()), replay);
                        return;
                    }
                }
                rep.inconclusive("watchdog fired");
                return;
            }
            Err((WaitErr::Disconnected, _)) => { rep.violation("engine-dead-during-interrupted-search", format!("{}: output closed", fen), replay); return; }
        };
        rep.eval();
        if let Some(d) = out.board_dump().and_then(|d| parse_dump(d)) {
            if d.abort_node > 0 { rep.count(&format!("real_abort_at_node_{}00k", d.abort_node / 100_000)); }
        }
        // a stop that arrives after the search has already answered (the usual GUI race): it must be
        // ignored — in particular it must not produce a second answer
        if rng.gen_bool(0.4) {
            let _ = sess.send(&Gui::Stop);
            rep.count("late_stop_after_the_answer");
            std::thread::sleep(Duration::from_millis(2));
        }
        // a search with no time at all right after an interrupted one: its first iteration must still
        // complete (the poll counter restarts with every go), so it answers a legal move
        if rng.gen_bool(0.4) {
            // sometimes announced as a new game (the position is kept by `ucinewgame`; only tables and
            // counters are reset) — whatever the interrupted search left behind must not leak into it
            if rng.gen_bool(0.5) {
                let _ = sess.send(&Gui::NewGame);
                rep.count("ucinewgame_between_an_interrupted_search_and_the_next_go");
            }
            let zero = if rng.gen_bool(0.5) { GoSpec { movetime: Some(0), ..Default::default() } } else { GoSpec::depth(1) };
            match search(sess.as_mut(), None, &zero) {
                Ok(o) => {
                    rep.eval();
                    rep.count("zero_budget_go_after_an_interrupted_search");
                    let legal: Vec<String> = p.legal_moves().iter().map(|m| m.uci()).collect();
                    if o.best.as_ref().map_or(true, |b| !legal.contains(b)) {
                        rep.violation(&format!("go-after-interrupted-search-answers-no-legal-move:{}", how), format!("{}: after an interrupted search `{}` answered {:?}", fen, Gui::Go(zero.clone()).text(), o.best), replay.clone());
                    }
                }
                Err(e) if e.starts_with("watchdog") => { rep.inconclusive("watchdog fired"); return; }
                Err(e) => { rep.violation("engine-dead-after-interrupted-search", format!("{}: {}", fen, e), replay.clone()); return; }
            }
        }
        if !observe_interrupted(sess.as_mut(), p, &out, &fresh, rep, &replay, how, true) { return; }
    }
    // quit during a search: the thread must come down cleanly and the interrupted search must still
    // have been answered by exactly one bestmove (a legal move of the held position)
    if rng.gen_bool(0.5) {
        let _ = sess.drain(Duration::from_millis(1));
        let _ = sess.send(&Gui::Go(GoSpec { infinite: true, ..Default::default() }));
        std::thread::sleep(Duration::from_millis(rng.gen_range(0..200)));
        rep.count("quit_during_search");
        let replay = json!({"kind":"c09-real","fen":fen,"quit":true,"app":app});
        if let Err(e) = sess.send(&Gui::Quit) {
            rep.violation("quit-during-search-failed", format!("{}: {}", fen, e), replay.clone());
        }
        // in-process: accept(Quit) has joined the search thread, everything it sent is in the channel;
        // app: the process exits after quit, read until its output closes
        let outs = sess.drain(Duration::from_millis(if app { 3000 } else { 50 }));
        let answers: Vec<&Out> = outs.iter().filter(|o| matches!(o, Out::BestMove { .. })).collect();
        rep.eval();
        if answers.len() != 1 {
            rep.violation(&format!("search-interrupted-by-quit-answered-{}-times", answers.len()), format!("{}: go infinite, quit: {} bestmove answers", fen, answers.len()), replay.clone());
        } else if let Out::BestMove { best, .. } = answers[0] {
            let legal: Vec<String> = p.legal_moves().iter().map(|m| m.uci()).collect();
            if best.as_ref().map_or(true, |b| !legal.contains(b)) {
                rep.violation("search-interrupted-by-quit-answers-illegal-move", format!("{}: {:?}", fen, best), replay);
            }
        }
    }
}

pub fn positions_for_enumeration(rng: &mut StdRng, n: usize) -> Vec<(Pos, u64)> {
    let seeds = refchess::seeds::seeds();
    let mut v = Vec::new();
    while v.len() < n {
        let s = &seeds[rng.gen_range(0..seeds.len())];
        let len = rng.gen_range(0..30);
        let p = gen::walk(rng, s, gen::Policy::Tactical, len).0.pop().unwrap();
        let moves = p.legal_moves().len();
        if moves == 0 { continue; }
        // sparse positions deeper, busy positions shallower
        let depth = if moves <= 6 { 4 } else if moves <= 25 { 3 } else { 2 };
        v.push((p, depth));
    }
    v
}

pub fn run(args: &monlib::Args, rep: &mut Report) {
    let mut rng = gen::rng(args.seed, args.shard, 9);
    let n_pos = (args.budget(160, 1600) / args.nshards.max(1)).max(1) as usize;
    let max_points = if args.thorough { u64::MAX } else { 350 };
    for (p, depth) in positions_for_enumeration(&mut rng, n_pos) {
        // learn T (uninterrupted, poll interval 1) to choose the stride
        hook::set_poll_interval(1);
        let mut s = InProc::new();
        s.record_infos = false;
        let t = search(&mut s, Some((&Some(p.to_fen()), &[])), &GoSpec::depth(depth)).ok().map(|o| o.infos.len() as u64).unwrap_or(1000);
        drop(s);
        hook::set_poll_interval(0);
        let stride = if t > max_points { t / max_points + 1 } else { 1 };
        enumerate(&p, depth, stride, rep);
        consecutive(&p, depth, &mut rng, rep, t);
    }
    // real schedules, in-process and through the hooked / plain app binaries
    let n_real = args.budget(480, 8000) / args.nshards.max(1);
    let app = args.rest.get("app").cloned();
    let seeds = refchess::seeds::seeds();
    for i in 0..n_real {
        let s = &seeds[rng.gen_range(0..seeds.len())];
        let len = rng.gen_range(0..20);
        let p = gen::walk(&mut rng, s, gen::Policy::Uniform, len).0.pop().unwrap();
        if p.legal_moves().is_empty() { continue; }
        let use_app = i % 4 == 3 && app.is_some();
        let app_path = app.clone();
        let mut factory = move || -> Option<Box<dyn Driver>> {
            if use_app { App::spawn(app_path.as_ref().unwrap(), &[]).ok().map(|a| Box::new(a) as Box<dyn Driver>) } else { let mut s = InProc::new(); s.record_infos = false; Some(Box::new(s) as Box<dyn Driver>) }
        };
        real_schedule(&mut factory, &p, &mut rng, rep);
    }
}

pub fn replay(case: &monlib::Value, rep: &mut Report) {
    let p = Pos::from_fen(case["fen"].as_str().unwrap()).unwrap();
    let depth = case["depth"].as_u64().unwrap_or(2);
    let mut rng = gen::rng(7, 0, 0);
    match case["kind"].as_str().unwrap_or("") {
        "c09-enum" => {
            let n = case["abort_at"].as_u64().unwrap_or(2);
            let fresh = fresh_depth1(&p).unwrap();
            let mut sess = InProc::new();
            hook::set_poll_interval(1);
            if case["how"].as_str() == Some("stop") { hook::stop_at_node(n); } else { hook::abort_at_node(n); }
            let out = search(&mut sess, Some((&Some(p.to_fen()), &[])), &GoSpec::depth(depth)).unwrap();
            hook::abort_at_node(0);
            hook::stop_at_node(0);
            observe_interrupted(&mut sess, &p, &out, &fresh, rep, case, "enumerated", true);
            hook::set_poll_interval(0);
        }
        "c09-consecutive" => consecutive(&p, depth, &mut rng, rep, 200),
        _ => {
            for _ in 0..5 {
                let mut f = || -> Option<Box<dyn Driver>> { Some(Box::new(InProc::new()) as Box<dyn Driver>) };
                real_schedule(&mut f, &p, &mut rng, rep);
            }
        }
    }
}
