//! C07 — every `go` is answered by exactly one legal `bestmove`.

use std::time::Duration;

use monlib::{json, Report};
use rand::rngs::StdRng;
use rand::Rng;
use refchess::gen;

use crate::c16;
use crate::common::*;
use crate::session::*;
use crate::sessions::*;

pub fn describe(script: &Script) -> monlib::Value {
    json!({
        "poll_interval": script.poll_interval,
        "cycles": script.cycles.iter().map(|c| json!({
            "ucinewgame": c.new_game,
            "position": c.position.as_ref().map(|(f, m)| Gui::Position { fen: f.clone(), moves: m.clone() }.text()),
            "go": Gui::Go(c.go.clone()).text(),
            "stop_after_us": c.stop_after_us,
            "during": c.during.iter().map(|g| g.text()).collect::<Vec<_>>(),
            "follow_ponder": c.follow_ponder, "sibling": c.sibling, "late_stop": c.late_stop,
        })).collect::<Vec<_>>()
    })
}

pub fn random_script(rng: &mut StdRng, starts: &mut gen::Starts, in_process: bool) -> (Script, Vec<Root>) {
    let n = rng.gen_range(3..=12);
    let mut cycles = Vec::new();
    let mut roots = Vec::new();
    let mut cur: Option<Root> = None;
    for i in 0..n {
        let new_pos = i == 0 || rng.gen_bool(0.6);
        let position = if new_pos {
            let (cmd, root) = random_root(rng, starts);
            cur = Some(root);
            Some(cmd)
        } else { None };
        let root = cur.clone().unwrap();
        let (go, stop) = random_go(rng, &root.pos, true);
        // run-time decisions: continue the game along the engine's own prediction, or re-send the game
        // with one earlier move changed (same length, same last move); sometimes a late stop
        let kind = rng.gen_range(0..100);
        cycles.push(Cycle { new_game: rng.gen_bool(0.15), position, go: go.clone(), stop_after_us: stop, extra: vec![], during: during_for(&go, rng), follow_ponder: i > 0 && kind < 20, sibling: i > 0 && (20..30).contains(&kind), late_stop: rng.gen_bool(0.15) });
        roots.push(root);
    }
    // Poll intervals below the node count of a depth-1 iteration (at most 219 negamax nodes) would let a
    // search be interrupted before its first iteration completes — an interleaving the program cannot
    // have with its real 100 000-node interval — so only larger intervals are used here.
    let poll_interval = if in_process { *[0u64, 0, 0, 1000, 5000, 20000].get(rng.gen_range(0..6)).unwrap() } else { 0 };
    (Script { cycles, poll_interval }, roots)
}

/// judge one answered cycle
pub fn judge(root: &Root, c: &Cycle, out: &Outcome, rep: &mut Report, replay: &monlib::Value, via: &str) {
    let legal: Vec<String> = root.pos.legal_moves().iter().map(|m| m.uci()).collect();
    let fen = root.pos.to_fen();
    let go_text = Gui::Go(c.go.clone()).text();
    rep.eval();
    rep.count(&format!("go_{}", c.go.kind()));
    rep.count(&format!("answered_via_{}", via));
    rep.distinct_hash(monlib::mix(root.pos.key().h64(), monlib::fnv(go_text.as_bytes())));
    let occ = root.occurrences_of_root();
    if occ >= 3 { rep.count("roots_already_threefold"); } else if occ == 2 { rep.count("roots_occurred_twice"); }
    if root.pos.full > 2500 { rep.count("roots_fullmove_above_2500"); }
    if root.pos.full >= 32766 { rep.count("roots_fullmove_at_or_above_32766"); }
    if legal.is_empty() {
        rep.count(if root.pos.is_mate() { "mate_roots" } else { "stalemate_roots" });
        if out.best.is_some() {
            rep.violation("move-answered-in-moveless-position", format!("{} has no legal move; `{}` answered {:?}", fen, go_text, out.best), replay.clone());
        }
        return;
    }
    match &out.best {
        None => rep.violation(&format!("null-move-answered:{}:{}", c.go.kind(), if occ >= 3 { "root-threefold" } else { "plain-root" }), format!("{} has {} legal moves; `{}` answered bestmove 0000", fen, legal.len(), go_text), replay.clone()),
        Some(b) => {
            if !legal.contains(b) {
                rep.violation(&format!("illegal-bestmove:{}", c.go.kind()), format!("`{}` on {} answered {} which is not legal there", go_text, fen, b), replay.clone());
            } else if !c.go.searchmoves.is_empty() {
                rep.count("go_with_searchmoves");
                if !c.go.searchmoves.contains(b) {
                    rep.violation("bestmove-outside-searchmoves", format!("`{}` on {} answered {}", go_text, fen, b), replay.clone());
                }
            }
        }
    }
    if c.position.is_none() { rep.count("go_without_new_position"); }
    if let Some(us) = c.stop_after_us { rep.count(&format!("stop_after_{}us", us)); }
    if let Some(d) = out.board_dump().and_then(|d| crate::c09::parse_dump(d)) {
        if d.abort_node > 0 {
            rep.count("searches_interrupted");
            rep.distinct_hash(monlib::mix(0xABCD, monlib::mix(d.iter, d.abort_node)));
        }
    }
}

pub fn run_script(d: &mut dyn Driver, script: &Script, roots: &[Root], rep: &mut Report, via: &str, c16_too: bool) -> bool {
    let mut rng = gen::rng(monlib::fnv(format!("{:?}", script.cycles.len()).as_bytes()), roots.len() as u64, 77);
    run_script_rng(d, script, roots, rep, via, c16_too, &mut rng)
}

pub fn run_script_rng(d: &mut dyn Driver, script: &Script, roots: &[Root], rep: &mut Report, via: &str, c16_too: bool, rng: &mut StdRng) -> bool {
    let replay = json!({"kind":"c07-session","via":via,"script":describe(script)});
    set_poll(script.poll_interval);
    rep.count(&format!("sessions_poll_interval_{}", script.poll_interval));
    let mut gos = 0u64;
    let mut bestmoves = 0u64;
    let mut ok = true;
    let mut cur_cmd: Option<(Option<String>, Vec<String>)> = None;
    let mut cur_root: Option<Root> = None;
    let mut last_answer: (Option<String>, Option<String>) = (None, None);
    let mut diverged = false;
    for (i, c) in script.cycles.iter().enumerate() {
        gos += 1;
        let mut c = c.clone();
        // run-time variants of the position command
        let mut dynamic: Option<(Option<String>, Vec<String>)> = None;
        if let Some((fen, moves)) = &cur_cmd {
            if c.follow_ponder {
                if let (Some(b), Some(p)) = (&last_answer.0, &last_answer.1) {
                    let mut m2 = moves.clone();
                    m2.push(b.clone());
                    m2.push(p.clone());
                    if position_of(fen, &m2).map_or(false, |(pos, _)| !pos.legal_moves().is_empty()) { dynamic = Some((fen.clone(), m2)); rep.count("cycles_following_bestmove_and_ponder_move"); }
                }
            } else if c.sibling {
                if let Some(v) = sibling_moves(rng, fen, moves) { dynamic = Some((fen.clone(), v)); rep.count("cycles_with_a_sibling_move_list"); }
            }
        }
        if let Some(dy) = dynamic { c.position = Some(dy); c.go.searchmoves.clear(); diverged = true; } else if c.position.is_some() { diverged = false; } else if diverged { c.go.searchmoves.clear(); }
        if let Some((f, m)) = &c.position {
            cur_cmd = Some((f.clone(), m.clone()));
            cur_root = position_of(f, m).map(|(pos, history)| Root { pos, history });
        }
        let root = match (&cur_root, diverged) { (Some(r), _) => r.clone(), _ => roots[i].clone() };
        match run_cycle(d, &c) {
            CycleResult::Answered(out) => {
                bestmoves += 1;
                judge(&root, &c, &out, rep, &replay, via);
                if c16_too { c16::judge_search(&root.pos, &out, rep, &replay); }
                last_answer = (out.best.clone(), out.ponder.clone());
                if c.late_stop { let _ = d.send(&Gui::Stop); rep.count("late_stops_after_the_answer"); }
            }
            CycleResult::Watchdog => { rep.inconclusive("watchdog fired while the search thread was alive"); ok = false; break; }
            CycleResult::Dead(e) => {
                rep.violation(&format!("engine-died:{}", c.go.kind()), format!("cycle {} (`{}` on {}): {}", i, Gui::Go(c.go.clone()).text(), root.pos.to_fen(), e), replay.clone());
                ok = false;
                break;
            }
        }
    }
    set_poll(0);
    if ok {
        // quit, then nothing more may arrive: counts must match
        let q = d.send(&Gui::Quit);
        let late = d.drain(Duration::from_millis(30));
        let extra = late.iter().filter(|o| matches!(o, Out::BestMove { .. })).count() as u64;
        bestmoves += extra;
        if let Err(e) = q { rep.violation("quit-failed", e, replay.clone()); }
        if bestmoves != gos {
            rep.violation("bestmove-count-differs-from-go-count", format!("{} go commands, {} bestmove answers", gos, bestmoves), replay.clone());
        }
    }
    rep.count("sessions");
    ok
}

pub fn run(args: &monlib::Args, rep: &mut Report) {
    let mut rng = gen::rng(args.seed, args.shard, 7);
    let mut starts = gen::Starts::new(3000, 30000, args.shard as usize * 17);
    let n = args.budget(2_400, 48_000) / args.nshards.max(1);
    let app = args.rest.get("app").cloned();
    let app_hooked = args.rest.get("app-hooked").cloned();
    for i in 0..n {
        // a slice of the sessions goes through the real binary (plain and hooked build)
        let via_app = i % 6 == 5 && app.is_some();
        let (script, roots) = random_script(&mut rng, &mut starts, !via_app);
        if via_app {
            let hooked = i % 12 == 11 && app_hooked.is_some();
            let poll = *[1000u64, 5000, 20000].get(rng.gen_range(0..3)).unwrap();
            let spawned = if hooked { App::spawn(app_hooked.as_ref().unwrap(), &[("INKAYAKU_VERIF_POLL", poll.to_string())]) } else { App::spawn(app.as_ref().unwrap(), &[]) };
            match spawned {
                Ok(mut a) => {
                    let ok = run_script(&mut a, &script, &roots, rep, if hooked { "app-hooked" } else { "app" }, false);
                    if ok {
                        match a.finish(Duration::from_secs(20)) {
                            Some(0) => rep.count("app_exit_0"),
                            Some(code) => rep.violation("app-exit-code", format!("engine process exited with {}", code), json!({"kind":"c07-session","via":"app","script":describe(&script)})),
                            None => rep.inconclusive("app did not exit after quit"),
                        }
                    }
                }
                Err(e) => rep.inconclusive(&format!("app not started: {}", e)),
            }
        } else {
            let mut s = InProc::new();
            s.record_infos = false;
            run_script(&mut s, &script, &roots, rep, "in-process", false);
        }
        if rep.samples.len() < 4 && i % 10 == 0 { rep.sample(describe(&script)); }
    }
}

pub fn replay(case: &monlib::Value, rep: &mut Report) {
    // re-run the recorded script (timing is re-drawn by the scheduler; the script is the same)
    let sc = &case["script"];
    let mut cycles = Vec::new();
    let mut roots = Vec::new();
    let mut cur: Option<Root> = None;
    for c in sc["cycles"].as_array().cloned().unwrap_or_default() {
        let position = c["position"].as_str().map(|t| {
            let t = t.trim_start_matches("position ");
            let (head, moves) = match t.split_once(" moves ") { Some((h, m)) => (h, m.split(' ').map(|s| s.to_string()).collect()), None => (t, vec![]) };
            let fen = if head == "startpos" { None } else { Some(head.trim_start_matches("fen ").to_string()) };
            (fen, moves)
        });
        if let Some((f, m)) = &position { let (pos, history) = position_of(f, m).expect("replay position"); cur = Some(Root { pos, history }); }
        let go_text = c["go"].as_str().unwrap_or("go depth 1");
        let toks: Vec<&str> = go_text.split(' ').collect();
        let mut g = GoSpec::default();
        let mut i = 1;
        while i < toks.len() {
            match toks[i] {
                "depth" => { g.depth = toks[i + 1].parse().ok(); i += 2; }
                "movetime" => { g.movetime = toks[i + 1].parse().ok(); i += 2; }
                "wtime" => { g.wtime = toks[i + 1].parse().ok(); i += 2; }
                "btime" => { g.btime = toks[i + 1].parse().ok(); i += 2; }
                "winc" => { g.winc = toks[i + 1].parse().ok(); i += 2; }
                "binc" => { g.binc = toks[i + 1].parse().ok(); i += 2; }
                "infinite" => { g.infinite = true; i += 1; }
                "ponder" => { g.ponder = true; i += 1; }
                "searchmoves" => { i += 1; while i < toks.len() && refchess::Mv::from_uci(toks[i]).is_some() { g.searchmoves.push(toks[i].to_string()); i += 1; } }
                _ => i += 1,
            }
        }
        cycles.push(Cycle { new_game: c["ucinewgame"].as_bool().unwrap_or(false), position, go: g, stop_after_us: c["stop_after_us"].as_u64(), extra: vec![], during: c["during"].as_array().map(|a| a.iter().filter_map(|t| match t.as_str() { Some("ucinewgame") => Some(Gui::NewGame), Some("isready") => Some(Gui::IsReady), Some("uci") => Some(Gui::Uci), Some("debug on") => Some(Gui::Debug(true)), Some("debug off") => Some(Gui::Debug(false)), Some("ponderhit") => Some(Gui::PonderHit), Some("register later") => Some(Gui::Register(false)), Some("register name Some Body code 12345") => Some(Gui::Register(true)), _ => None }).collect()).unwrap_or_default(), follow_ponder: c["follow_ponder"].as_bool().unwrap_or(false), sibling: c["sibling"].as_bool().unwrap_or(false), late_stop: c["late_stop"].as_bool().unwrap_or(false) });
        roots.push(cur.clone().expect("first cycle has a position"));
    }
    let script = Script { cycles, poll_interval: sc["poll_interval"].as_u64().unwrap_or(0) };
    for _ in 0..3 {
        let mut s = InProc::new();
        run_script(&mut s, &script, &roots, rep, "in-process", true);
    }
}
