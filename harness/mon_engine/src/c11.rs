//! C11 — evaluation is colour-symmetric; terminal scores have the right sign.

use monlib::{guarded, json, panic_sig, Report};
use rand::Rng;
use refchess::gen;
use refchess::search::forced_mate_plies;
use refchess::*;

use crate::common::*;
use crate::session::*;

/// full-move numbers b such that (b, b+1) straddles a boundary of a 15/16-bit counter of moves or plies
pub const MOVE_NUMBER_BOUNDARIES: [u32; 8] = [127, 255, 16383, 32766, 32767, 32768, 65535, 99_998];

pub fn static_pair(p: &Pos, rep: &mut Report) {
    let f = p.flip();
    let (fa, fb) = (p.to_fen(), f.to_fen());
    rep.eval();
    let r = guarded(move || (static_eval_white(&Pos::from_fen(&fa).unwrap(), true), static_eval_white(&Pos::from_fen(&fb).unwrap(), true)));
    let fen = p.to_fen();
    match r {
        Err(pm) => rep.violation(&format!("eval-{}", panic_sig(&pm)), format!("static evaluation panicked on {} / its twin: {}", fen, pm), json!({"kind":"c11-static","fen":fen})),
        Ok((a, b)) => {
            if a != -b {
                rep.violation(&format!("static-asymmetric:{}", stage_hint(p)), format!("{} evaluates to {}, colour-flipped twin {} to {}", fen, a, f.to_fen(), b), json!({"kind":"c11-static","fen":fen}));
            }
            if a != 0 { rep.distinct_hash(p.key().h64()); }
        }
    }
    rep.count(&format!("static_pairs_{}", stage_hint(p)));
}

/// coarse material situation (only for counters / signatures)
fn stage_hint(p: &Pos) -> &'static str {
    let wq = p.b.iter().filter(|&&x| x == Q).count();
    let bq = p.b.iter().filter(|&&x| x == -Q).count();
    let wm = p.b.iter().filter(|&&x| x == N || x == B).count();
    let bm = p.b.iter().filter(|&&x| x == -N || x == -B).count();
    if wq == 0 && bq == 0 { "no-queens" } else if (wq > 0) != (bq > 0) { "queens-one-side" } else if wm <= 1 && bm <= 1 { "queens-few-minors" } else { "queens-many-minors" }
}

pub fn terminal(p: &Pos, rep: &mut Report) {
    // p has no legal moves
    let fen = p.to_fen();
    rep.eval();
    let v = static_eval_white(p, false);
    let mover = if p.wtm { v } else { -v };
    if p.in_check(p.wtm) {
        rep.count(if p.wtm { "terminal_mate_white_to_move" } else { "terminal_mate_black_to_move" });
        if !(mover < -(1 << 23)) {
            rep.violation("mated-side-not-losing", format!("checkmated side to move in {} is valued {} (its own view)", fen, mover), json!({"kind":"c11-terminal","fen":fen}));
        }
        // the same mate at another full-move number is still a loss, and a later (farther) mate is better for the mated side
        let mut q = p.clone();
        q.full = p.full + 7;
        let v2 = static_eval_white(&q, false);
        let mover2 = if q.wtm { v2 } else { -v2 };
        if !(mover2 < -(1 << 23)) || !(mover2 > mover) {
            rep.violation("mate-score-move-number", format!("{}: mated at move {} = {}, at move {} = {} (own view); later must be better and still lost", fen, p.full, mover, q.full, mover2), json!({"kind":"c11-terminal","fen":fen}));
        }
        // ... for all full-move numbers: pairs that straddle the boundaries of the counter types
        for b in MOVE_NUMBER_BOUNDARIES {
            let mut lo = p.clone();
            lo.full = b;
            let mut hi = p.clone();
            hi.full = b + 1;
            let (vl, vh) = (static_eval_white(&lo, false), static_eval_white(&hi, false));
            let (ml, mh) = if p.wtm { (vl, vh) } else { (-vl, -vh) };
            rep.eval();
            rep.count("terminal_mate_move_number_boundary_pairs");
            if !(ml < -(1 << 23)) || !(mh < -(1 << 23)) || !(mh > ml) {
                rep.violation("mate-score-move-number-boundary", format!("{}: mated at move {} = {}, at move {} = {} (own view); later must be better and both lost", fen, b, ml, b + 1, mh), json!({"kind":"c11-terminal","fen":lo.to_fen()}));
            }
        }
    } else {
        rep.count(if p.wtm { "terminal_stalemate_white_to_move" } else { "terminal_stalemate_black_to_move" });
        if v != 0 {
            rep.violation("stalemate-not-draw", format!("stalemate {} valued {}", fen, v), json!({"kind":"c11-terminal","fen":fen}));
        }
    }
    rep.distinct_hash(p.key().h64() ^ 0x5555);
}

/// search scores of P and flip(P) agree from the mover's point of view
pub fn search_pair(sess: &mut dyn Driver, p: &Pos, d: u32, rep: &mut Report) {
    let f = p.flip();
    let replay = json!({"kind":"c11-search","fen":p.to_fen(),"depth":d});
    let mut scores = Vec::new();
    for q in [p, &f] {
        match search(sess, Some((&Some(q.to_fen()), &[])), &GoSpec::depth(d as u64)) {
            Ok(o) => scores.push(o.score_at_depth(d).and_then(reported)),
            Err(e) if e.starts_with("watchdog") => { rep.inconclusive("watchdog fired"); return; }
            Err(e) => { rep.violation("search-failed", format!("go depth {} on {}: {}", d, q.to_fen(), e), replay); return; }
        }
    }
    rep.eval();
    rep.count(&format!("search_pairs_depth_{}", d));
    rep.distinct_hash(monlib::mix(p.key().h64(), 7000 + d as u64));
    if scores[0].is_none() || scores[0] != scores[1] {
        rep.violation(&format!("search-asymmetric:depth-{}:{}", d, if matches!(scores[0], Some(Reported::Mate(_))) || matches!(scores[1], Some(Reported::Mate(_))) { "mate" } else { "cp" }), format!("go depth {}: {} scores {:?}, colour-flipped twin {} scores {:?}", d, p.to_fen(), scores[0], f.to_fen(), scores[1]), replay);
    }
    if let Some(Reported::Mate(_)) = scores[0] { rep.count("search_pairs_with_mate_score"); }
}

pub fn flip_mv(m: Mv) -> Mv {
    Mv { from: sq(file_of(m.from), 7 - rank_of(m.from)), to: sq(file_of(m.to), 7 - rank_of(m.to)), promo: m.promo }
}

/// The same with a game history: `position fen S moves ...` against the colour-flipped start with
/// the mirrored moves. Histories come from shuffle games, so positions of the history recur inside
/// the horizon and the draw-by-repetition value (contempt included) takes part in the score.
/// Depth <= 2 only: at depth 3 the value of a transposition-table hit can depend on which path
/// reached it first (repetition counts include the path), and the twins order moves differently.
pub fn search_pair_with_history(sess: &mut dyn Driver, start: &Pos, moves: &[Mv], d: u32, rep: &mut Report) {
    let fs = start.flip();
    let ma: Vec<String> = moves.iter().map(|m| m.uci()).collect();
    let mb: Vec<String> = moves.iter().map(|m| flip_mv(*m).uci()).collect();
    let replay = json!({"kind":"c11-history","fen":start.to_fen(),"moves":ma,"depth":d});
    let mut scores = Vec::new();
    for (q, ms) in [(start, &ma), (&fs, &mb)] {
        match search(sess, Some((&Some(q.to_fen()), &ms[..])), &GoSpec::depth(d as u64)) {
            Ok(o) => scores.push(o.score_at_depth(d).and_then(reported)),
            Err(e) if e.starts_with("watchdog") => { rep.inconclusive("watchdog fired"); return; }
            Err(e) => { rep.violation("search-failed", format!("go depth {} on {} moves {:?}: {}", d, q.to_fen(), ms, e), replay); return; }
        }
    }
    rep.eval();
    rep.count(&format!("search_pairs_with_history_depth_{}", d));
    // how much repetition the history carries at the root
    let mut cur = start.clone();
    let mut seen: Vec<PosKey> = vec![cur.key()];
    for m in moves { cur = cur.make(*m); seen.push(cur.key()); }
    let twice_in_reach = cur.legal_moves().iter().any(|m| { let n = cur.make(*m); seen.iter().filter(|k| **k == n.key()).count() >= 2 });
    if twice_in_reach { rep.count("search_pairs_with_history_third_occurrence_one_ply_away"); rep.distinct_hash(monlib::mix(cur.key().h64(), 7100 + d as u64)); }
    if scores[0].is_none() || scores[0] != scores[1] {
        rep.violation(&format!("search-asymmetric-with-history:depth-{}:{}", d, if twice_in_reach { "repetition-in-reach" } else { "other" }), format!("go depth {} after {} moves from {}: {:?}, colour-flipped twin {:?}", d, moves.len(), start.to_fen(), scores[0], scores[1]), replay.clone());
    }
    // The same two roots asked again on this engine as bare FENs (no history): whatever the previous
    // commands left in the engine (repetition history, tables) must not take part — the twins still
    // agree. (The second twin finds the first twin's game in the engine's past, the first one does not.)
    let bare = [cur.clone(), cur.flip()];
    if cur.legal_moves().is_empty() { return; }
    let mut s2 = Vec::new();
    for q in &bare {
        match search(sess, Some((&Some(q.to_fen()), &[])), &GoSpec::depth(d as u64)) {
            Ok(o) => s2.push(o.score_at_depth(d).and_then(reported)),
            Err(e) if e.starts_with("watchdog") => { rep.inconclusive("watchdog fired"); return; }
            Err(e) => { rep.violation("search-failed", format!("go depth {} on {}: {}", d, q.to_fen(), e), replay); return; }
        }
    }
    rep.eval();
    rep.count("search_pairs_bare_fen_after_a_game_on_the_same_engine");
    if s2[0].is_none() || s2[0] != s2[1] {
        rep.violation(&format!("search-asymmetric-bare-fen-after-game:depth-{}", d), format!("go depth {} on the bare FEN {} after the game had been searched on this engine: {:?}, colour-flipped twin {:?}", d, cur.to_fen(), s2[0], s2[1]), replay);
    }
}

/// nearer mates score better; same mate at different move numbers gives the same distance
pub fn mate_order(sess: &mut dyn Driver, p: &Pos, rep: &mut Report) {
    let plies = match forced_mate_plies(p, 3) { Some(x) => x, None => return };
    let n = ((plies + 1) / 2) as i32;
    let replay = json!({"kind":"c11-mate","fen":p.to_fen()});
    let mut q = p.clone();
    q.full = match p.key().h64() % 3 { 0 => if p.full > 100 { 3 } else { p.full + 1234 }, _ => { let b = MOVE_NUMBER_BOUNDARIES[(p.key().h64() / 3 % MOVE_NUMBER_BOUNDARIES.len() as u64) as usize]; b + (p.key().h64() / 64 % 2) as u32 } };
    if q.full >= 30000 { rep.count("mate_distance_checks_at_move_number_boundaries"); }
    let mut got = Vec::new();
    for x in [p, &q] {
        match search(sess, Some((&Some(x.to_fen()), &[])), &GoSpec::depth(plies as u64)) {
            Ok(o) => got.push(o.score_at_depth(plies).and_then(reported)),
            Err(e) if e.starts_with("watchdog") => { rep.inconclusive("watchdog fired"); return; }
            Err(e) => { rep.violation("search-failed", format!("{}: {}", x.to_fen(), e), replay); return; }
        }
    }
    rep.eval();
    rep.count(&format!("mate_distance_checks_mate_in_{}_{}", n, if p.wtm { "white" } else { "black" }));
    if got[0] != Some(Reported::Mate(n)) || got[1] != Some(Reported::Mate(n)) {
        rep.violation("mate-distance-depends-on-move-number-or-wrong", format!("{} is mate in {}: reported {:?} at move {}, {:?} at move {}", p.to_fen(), n, got[0], p.full, got[1], q.full), replay.clone());
    }
    // the mated side, one ply later: after the first move of a mate in 2 the defender is "mated in 1"
    if n == 2 {
        if let Ok(o) = search(sess, Some((&Some(p.to_fen()), &[])), &GoSpec::depth(3)) {
            if let Some(b) = o.best.as_ref().and_then(|b| Mv::from_uci(b)) {
                if p.is_legal(b) {
                    let d = p.make(b);
                    if !d.legal_moves().is_empty() && refchess::search::defender_lost_within(&d, 2) {
                        if let Ok(o2) = search(sess, Some((&Some(d.to_fen()), &[])), &GoSpec::depth(2)) {
                            rep.eval();
                            rep.count("mated_side_checks");
                            let s = o2.score_at_depth(2).and_then(reported);
                            if s != Some(Reported::Mate(-1)) {
                                rep.violation("mated-side-score", format!("{} (defender to move, mated next move whatever it plays) scored {:?}, expected mate -1", d.to_fen(), s), json!({"kind":"c11-mate","fen":p.to_fen()}));
                            }
                        }
                    }
                }
            }
        }
    }
}

pub fn run(args: &monlib::Args, rep: &mut Report) {
    let mut rng = gen::rng(args.seed, args.shard, 11);
    let mut starts = gen::Starts::new(60, 30000, args.shard as usize * 13);
    // static pairs over walks and synthesised material
    let n_static = args.budget(1_600_000, 24_000_000) / args.nshards.max(1);
    let mut done = 0;
    while done < n_static {
        let s = if rng.gen_bool(0.5) { starts.next(&mut rng) } else { gen::synth_position(&mut rng) };
        let policy = gen::POLICIES[rng.gen_range(0..3)];
        let len = rng.gen_range(1..80);
        let (ps, _) = gen::walk(&mut rng, &s, policy, len);
        for p in ps {
            if p.legal_moves().is_empty() { terminal(&p, rep); } else { static_pair(&p, rep); }
            done += 1;
        }
    }
    // kings on all 64 squares
    for ks in 0..64u8 {
        for _ in 0..4 {
            let mut p = gen::synth_position(&mut rng);
            if let Some(k) = p.king_sq(true) { p.b[k as usize] = 0; }
            if p.b[ks as usize] != 0 { continue; }
            p.b[ks as usize] = K;
            p.castle = [false; 4];
            p.ep = None;
            if p.is_legal_position() && !p.legal_moves().is_empty() { static_pair(&p, rep); rep.count("king_square_sweep"); }
        }
    }
    // terminal collection from low material
    let n_term = args.budget(48_000, 1_000_000) / args.nshards.max(1);
    for _ in 0..n_term {
        let p = gen::mating_material_position(&mut rng);
        for m in p.legal_moves() {
            let n = p.make(m);
            if n.legal_moves().is_empty() { terminal(&n, rep); }
        }
    }
    // search pairs and mate ordering
    let mut sess = InProc::new();
    sess.record_infos = false;
    let n_search = args.budget(24_000, 600_000) / args.nshards.max(1);
    for i in 0..n_search {
        let p = if i % 3 == 0 { gen::mating_material_position(&mut rng) } else {
            let s = starts.next(&mut rng);
            let len = rng.gen_range(0..30);
            gen::walk(&mut rng, &s, gen::Policy::Tactical, len).0.pop().unwrap()
        };
        if p.legal_moves().is_empty() || p.half > 60 { continue; }
        let mut p = p;
        if i % 3 == 0 && rng.gen_range(0..3) == 0 {
            // all full-move numbers: the twins of a pair sit on different sides of a ply boundary
            p.full = MOVE_NUMBER_BOUNDARIES[rng.gen_range(0..MOVE_NUMBER_BOUNDARIES.len())] + rng.gen_range(0..2);
            rep.count("search_pairs_at_move_number_boundaries");
        }
        if i % 4 == 1 {
            if let Some(g) = crate::c10::shuffle_game(&mut rng) {
                let k = rng.gen_range(0..=g.moves.len());
                search_pair_with_history(&mut sess, &g.start, &g.moves[..k], rng.gen_range(1..=2), rep);
            }
        }
        let d = rng.gen_range(1..=3);
        search_pair(&mut sess, &p, d, rep);
        if i % 3 == 0 { mate_order(&mut sess, &p, rep); }
        sess.events.clear();
        if rep.samples.len() < 5 && i % 200 == 0 {
            rep.sample(json!({"fen": p.to_fen(), "twin": p.flip().to_fen(), "static_eval_white_view": static_eval_white(&p, true), "twin_static_eval_white_view": static_eval_white(&p.flip(), true)}));
        }
    }
}

pub fn replay(case: &monlib::Value, rep: &mut Report) {
    let p = Pos::from_fen(case["fen"].as_str().unwrap()).unwrap();
    match case["kind"].as_str().unwrap_or("") {
        "c11-static" => static_pair(&p, rep),
        "c11-terminal" => terminal(&p, rep),
        "c11-mate" => { let mut s = InProc::new(); mate_order(&mut s, &p, rep); }
        "c11-history" => {
            let mut s = InProc::new();
            let ms: Vec<Mv> = case["moves"].as_array().map(|a| a.iter().filter_map(|v| v.as_str().and_then(Mv::from_uci)).collect()).unwrap_or_default();
            search_pair_with_history(&mut s, &p, &ms, case["depth"].as_u64().unwrap_or(2) as u32, rep);
        }
        _ => { let mut s = InProc::new(); search_pair(&mut s, &p, case["depth"].as_u64().unwrap_or(2) as u32, rep); }
    }
}
