//! Session scripts for C07 / C16: many short (C07) or long (C16) position/go cycles on one engine
//! instance, run either in-process or against the app binary, recorded as transcripts.

use std::time::Duration;

use inkayaku_engine_core::verif as hook;
use rand::rngs::StdRng;
use rand::seq::SliceRandom;
use rand::Rng;
use refchess::gen;
use refchess::*;

use crate::common::*;
use crate::session::*;

#[derive(Clone, Debug)]
pub struct Cycle {
    pub new_game: bool,
    /// None = no `position` command before this go (root unchanged)
    pub position: Option<(Option<String>, Vec<String>)>,
    pub go: GoSpec,
    pub stop_after_us: Option<u64>,
    pub extra: Vec<Gui>,
    /// commands a GUI may legitimately send while the search is running (ucinewgame, debug, isready, uci)
    pub during: Vec<Gui>,
    /// decided at run time: continue the previous position with the engine's bestmove and ponder move
    pub follow_ponder: bool,
    /// decided at run time: the previous move list with one *earlier* move replaced (same length, same last move)
    pub sibling: bool,
    /// a stop sent after the answer has arrived (GUI race); must be ignored
    pub late_stop: bool,
}

#[derive(Clone, Debug)]
pub struct Script {
    pub cycles: Vec<Cycle>,
    pub poll_interval: u64,
}

/// reference-side facts about a root
#[derive(Clone, Debug)]
pub struct Root {
    pub pos: Pos,
    pub history: Vec<Pos>,
}

impl Root {
    pub fn occurrences_of_root(&self) -> usize {
        let mut n = 0;
        for q in self.history.iter().rev() {
            if q.key() == self.pos.key() { n += 1; }
            if q.half == 0 { break; }
        }
        n
    }
}

fn shuffle_history(rng: &mut StdRng, start: &Pos, cycles: usize) -> Vec<String> {
    // knight/king out-and-back shuffles: the start position recurs after every 4 plies
    let mut out = Vec::new();
    let mut cur = start.clone();
    for _ in 0..cycles {
        let pick = |p: &Pos, rng: &mut StdRng| -> Option<(Mv, Mv)> {
            let mut c: Vec<Mv> = p.legal_moves().into_iter().filter(|m| !p.is_capture(*m) && m.promo == 0 && [N, K, R, Q, B].contains(&p.b[m.from as usize].abs()) && !p.is_castle(*m)).collect();
            c.shuffle(rng);
            c.into_iter().next().map(|m| (m, Mv { from: m.to, to: m.from, promo: 0 }))
        };
        let (a, a_back) = match pick(&cur, rng) { Some(x) => x, None => break };
        let p1 = cur.make(a);
        let (b, b_back) = match pick(&p1, rng) { Some(x) => x, None => break };
        let p2 = p1.make(b);
        if !p2.is_legal(a_back) { break; }
        let p3 = p2.make(a_back);
        if !p3.is_legal(b_back) { break; }
        let p4 = p3.make(b_back);
        if p4.key() != cur.key() { break; }
        for m in [a, b, a_back, b_back] { out.push(m.uci()); }
        cur = p4;
    }
    out
}

pub fn random_go(rng: &mut StdRng, root: &Pos, long_ok: bool) -> (GoSpec, Option<u64>) {
    let mut g = GoSpec::default();
    let mut stop = None;
    match rng.gen_range(0..10) {
        0..=3 => g.depth = Some(rng.gen_range(1..=if long_ok { 4 } else { 3 })),
        4 | 5 => g.movetime = Some(*[0u64, 1, 2, 5, 50].choose(rng).unwrap()),
        6 | 7 => {
            g.wtime = Some(*[0u64, 1, 50, 1000, 60000].choose(rng).unwrap());
            g.btime = Some(*[0u64, 1, 50, 1000, 60000].choose(rng).unwrap());
            if rng.gen_bool(0.6) { g.winc = Some(*[0u64, 1, 100].choose(rng).unwrap()); }
            if rng.gen_bool(0.6) { g.binc = Some(*[0u64, 1, 100].choose(rng).unwrap()); }
            if rng.gen_bool(0.2) { g.depth = Some(rng.gen_range(1..=3)); }
        }
        _ => {
            g.infinite = true;
            stop = Some(*[0u64, 50, 1000, 20_000, 150_000, 400_000].choose(rng).unwrap());
            // pondering: the same search, announced as `go ponder`; a `ponderhit` may arrive while it runs
            if rng.gen_range(0..4) == 0 { g.ponder = true; }
        }
    }
    if rng.gen_bool(0.25) {
        let legal: Vec<String> = root.legal_moves().iter().map(|m| m.uci()).collect();
        if !legal.is_empty() {
            let mut sm = legal.clone();
            sm.shuffle(rng);
            sm.truncate(rng.gen_range(1..=legal.len().min(5)));
            if rng.gen_bool(0.3) {
                // pad with moves that are not legal here
                for _ in 0..rng.gen_range(1..3) {
                    let u = format!("{}{}", sq_name(rng.gen_range(0..64)), sq_name(rng.gen_range(0..64)));
                    if !legal.contains(&u) && &u[0..2] != &u[2..4] { sm.push(u); }
                }
                sm.shuffle(rng);
            }
            g.searchmoves = sm;
        }
    }
    (g, stop)
}

/// commands sent while a search runs (never position / go: the protocol forbids those during a search)
pub fn random_during(rng: &mut StdRng) -> Vec<Gui> {
    let mut v = Vec::new();
    if rng.gen_bool(0.35) {
        for _ in 0..rng.gen_range(1..=3) {
            v.push(match rng.gen_range(0..11) { 0..=3 => Gui::NewGame, 4 | 5 => Gui::Debug(rng.gen_bool(0.5)), 6 | 7 => Gui::IsReady, 8 | 9 => Gui::Uci, _ => Gui::Register(rng.gen_bool(0.5)) });
        }
    }
    v
}

/// `random_during`, plus a `ponderhit` somewhere among them when the search was started with `go ponder`
pub fn during_for(go: &GoSpec, rng: &mut StdRng) -> Vec<Gui> {
    let mut v = random_during(rng);
    if go.ponder && rng.gen_bool(0.8) {
        let at = rng.gen_range(0..=v.len());
        v.insert(at, Gui::PonderHit);
    }
    v
}

pub fn random_root(rng: &mut StdRng, starts: &mut gen::Starts) -> ((Option<String>, Vec<String>), Root) {
    random_root_with(rng, starts, 15)
}

/// `shuffle_pct` % of the roots come with a history in which the root (and its neighbours) recur
pub fn random_root_with(rng: &mut StdRng, starts: &mut gen::Starts, shuffle_pct: u32) -> ((Option<String>, Vec<String>), Root) {
    loop {
        let roll = if rng.gen_range(0..100) < shuffle_pct { 0 } else { rng.gen_range(15..100) };
        let (fen, moves): (Option<String>, Vec<String>) = if roll < 15 {
            // root that already occurred twice or three and more times
            let base = if rng.gen_bool(0.5) { Pos::startpos() } else { starts.next(rng) };
            let pre: Vec<String> = { let n = rng.gen_range(0..10); gen::walk(rng, &base, gen::Policy::Uniform, n).1.iter().map(|m| m.uci()).collect() };
            let after_pre = position_of(&Some(base.to_fen()), &pre).map(|x| x.0).unwrap_or(base.clone());
            let cycles = rng.gen_range(1..=3);
            let mut all = pre.clone();
            all.extend(shuffle_history(rng, &after_pre, cycles));
            (Some(base.to_fen()), all)
        } else if roll < 20 {
            // mate / stalemate roots
            let mut found = None;
            for _ in 0..200 {
                let p = gen::mating_material_position(rng);
                if let Some(m) = p.legal_moves().into_iter().find(|m| p.make(*m).legal_moves().is_empty()) { found = Some((p, m)); break; }
            }
            match found { Some((p, m)) => if rng.gen_bool(0.5) { (Some(p.make(m).to_fen()), vec![]) } else { (Some(p.to_fen()), vec![m.uci()]) }, None => continue }
        } else {
            let use_startpos = rng.gen_bool(0.35);
            let mut base = if use_startpos { Pos::startpos() } else { starts.next(rng) };
            // full-move numbers around the places where the 16-bit ply index wraps
            if !use_startpos && rng.gen_range(0..8) == 0 {
                base.full = *[32766u32, 32767, 32768, 32769, 65534, 65535, 65536, 65537, 100_000].choose(rng).unwrap();
            }
            let n = if rng.gen_bool(0.3) { 0 } else { rng.gen_range(0..=120) };
            let policy = gen::POLICIES[rng.gen_range(0..3)];
            let moves: Vec<String> = gen::walk(rng, &base, policy, n).1.iter().map(|m| m.uci()).collect();
            (if use_startpos { None } else { Some(base.to_fen()) }, moves)
        };
        if let Some((pos, history)) = position_of(&fen, &moves) {
            if pos.full > 200_000 || pos.half > 4000 { continue; }
            return ((fen, moves), Root { pos, history });
        }
    }
}

/// Run one cycle: optional ucinewgame / position, go, optional stop, wait for the answer.
pub enum CycleResult {
    Answered(Outcome),
    Watchdog,
    Dead(String),
}

pub fn run_cycle(d: &mut dyn Driver, c: &Cycle) -> CycleResult {
    if c.new_game { if let Err(e) = d.send(&Gui::NewGame) { return CycleResult::Dead(e); } }
    for g in &c.extra { if let Err(e) = d.send(g) { return CycleResult::Dead(e); } }
    if let Some((fen, moves)) = &c.position {
        if let Err(e) = d.send(&Gui::Position { fen: fen.clone(), moves: moves.clone() }) { return CycleResult::Dead(e); }
    }
    if let Err(e) = d.send(&Gui::Go(c.go.clone())) { return CycleResult::Dead(e); }
    if let Some(us) = c.stop_after_us {
        let parts = c.during.len() as u64 + 1;
        for g in &c.during {
            if us > 0 { std::thread::sleep(Duration::from_micros(us / parts)); }
            if let Err(e) = d.send(g) { return CycleResult::Dead(e); }
        }
        if us > 0 { std::thread::sleep(Duration::from_micros(us / parts)); }
        if let Err(e) = d.send(&Gui::Stop) { return CycleResult::Dead(e); }
    } else {
        for g in &c.during { if let Err(e) = d.send(g) { return CycleResult::Dead(e); } }
    }
    match d.await_bestmove(WATCHDOG) {
        Ok(outs) => CycleResult::Answered(collect(outs)),
        Err((WaitErr::Timeout, _)) => {
            // is the search thread still alive? a command to it fails if not
            match d.send(&Gui::Debug(false)) { Ok(()) => CycleResult::Watchdog, Err(e) => CycleResult::Dead(e) }
        }
        Err((WaitErr::Disconnected, _)) => CycleResult::Dead("output closed".into()),
    }
}

pub fn set_poll(n: u64) {
    hook::set_poll_interval(n);
}

/// A move list of the same length and with the same last move as `moves`, but with one earlier move
/// replaced, still legal from `fen` and ending in a different position.
pub fn sibling_moves(rng: &mut StdRng, fen: &Option<String>, moves: &[String]) -> Option<Vec<String>> {
    if moves.len() < 2 { return None; }
    let (orig_end, _) = position_of(fen, moves)?;
    for _ in 0..12 {
        let j = rng.gen_range(0..moves.len() - 1);
        let (at, _) = position_of(fen, &moves[..j])?;
        let mut alts: Vec<String> = at.legal_moves().iter().map(|m| m.uci()).filter(|u| u != &moves[j]).collect();
        alts.shuffle(rng);
        for a in alts.into_iter().take(8) {
            let mut v = moves.to_vec();
            v[j] = a;
            if let Some((end, _)) = position_of(fen, &v) {
                if end.key() != orig_end.key() && !end.legal_moves().is_empty() { return Some(v); }
            }
        }
    }
    None
}
