//! Helpers shared by the engine monitors.

use std::time::Duration;

use inkayaku_board::Bitboard;
use inkayaku_engine_core::verif as hook;
use refchess::search::{Searcher, Val};
use refchess::*;

use crate::session::*;

pub const WATCHDOG: Duration = Duration::from_secs(120);

#[derive(Clone, Debug)]
pub struct Outcome {
    pub infos: Vec<InfoEv>,
    pub best: Option<String>,
    pub ponder: Option<String>,
    pub debug: Vec<String>,
}

impl Outcome {
    /// last info that carries a score (the engine repeats the last accepted one on later lines)
    pub fn final_score(&self) -> Option<&InfoEv> {
        self.infos.iter().rev().find(|i| i.score_cp.is_some() || i.score_mate.is_some())
    }
    pub fn score_at_depth(&self, d: u32) -> Option<&InfoEv> {
        self.infos.iter().rev().find(|i| i.depth == Some(d) && i.pv.is_some() && (i.score_cp.is_some() || i.score_mate.is_some()))
    }
    pub fn board_dump(&self) -> Option<&String> {
        self.debug.iter().rev().find(|d| d.starts_with("verif-board"))
    }
}

pub fn collect(outs: Vec<Out>) -> Outcome {
    let mut o = Outcome { infos: Vec::new(), best: None, ponder: None, debug: Vec::new() };
    for x in outs {
        match x {
            Out::Info(i) => o.infos.push(i),
            Out::BestMove { best, ponder } => { o.best = best; o.ponder = ponder; }
            Out::Debug(d) => o.debug.push(d),
            Out::Other(_) => {}
        }
    }
    o
}

/// `position` (optional) + `go`, wait for the answer
pub fn search(d: &mut dyn Driver, pos: Option<(&Option<String>, &[String])>, go: &GoSpec) -> Result<Outcome, String> {
    if let Some((fen, moves)) = pos {
        d.send(&Gui::Position { fen: fen.clone(), moves: moves.to_vec() })?;
    }
    d.send(&Gui::Go(go.clone()))?;
    match d.await_bestmove(WATCHDOG) {
        Ok(outs) => Ok(collect(outs)),
        Err((WaitErr::Timeout, _)) => {
            // The answer did not arrive in time although the search thread is alive (loaded machine,
            // exploding quiescence): inconclusive. Get back in step before the session is used again —
            // otherwise every later answer would be attributed to the wrong search.
            let _ = d.send(&Gui::Stop);
            match d.await_bestmove(Duration::from_secs(900)) {
                Ok(_) => Err("watchdog".into()),
                Err(_) => Err("watchdog-lost: the engine never answered; the session must not be used any more".into()),
            }
        }
        Err((WaitErr::Disconnected, _)) => Err("engine output channel closed (search thread died)".into()),
    }
}

/// static evaluation from the point of view of the side to move, through the hook
pub fn eval_stm(p: &Pos) -> i32 {
    let bb = Bitboard::from_fen_string(&p.to_fen()).expect("reference FEN accepted");
    let f = if p.wtm { 1 } else { -1 };
    f * hook::static_eval(&bb, true)
}

pub fn static_eval_white(p: &Pos, legal_moves_remaining: bool) -> i32 {
    let bb = Bitboard::from_fen_string(&p.to_fen()).expect("reference FEN accepted");
    hook::static_eval(&bb, legal_moves_remaining)
}

/// reference value of a depth-d search, None = node budget exceeded
pub fn reference_value(p: &Pos, depth: u32, budget: u64) -> Option<(Val, u64)> {
    let mut ev = |q: &Pos| eval_stm(q);
    let mut s = Searcher::new(&mut ev, budget);
    let v = s.root(p, depth)?;
    Some((v, s.nodes))
}

/// reference value of the position after `m`, from the root mover's point of view (depth d-1 below)
pub fn reference_value_after(p: &Pos, m: Mv, depth: u32, budget: u64) -> Option<Val> {
    let mut ev = |q: &Pos| eval_stm(q);
    let mut s = Searcher::new(&mut ev, budget);
    let n = p.make(m);
    let v = -s.negamax(&n, depth - 1, 1, -refchess::search::MATE - 1, refchess::search::MATE + 1);
    if s.exceeded { None } else { Some(refchess::search::to_val(v)) }
}

/// engine-reported score as a reference `Val` (mate distances in plies cannot be recovered
/// exactly from moves; compare in moves instead)
#[derive(Clone, Copy, Debug, PartialEq, Eq)]
pub enum Reported {
    Cp(i32),
    Mate(i32),
}

pub fn reported(i: &InfoEv) -> Option<Reported> {
    if let Some(m) = i.score_mate { Some(Reported::Mate(m)) } else { i.score_cp.map(Reported::Cp) }
}

pub fn val_as_reported(v: Val) -> Reported {
    match v {
        Val::Cp(c) => Reported::Cp(c),
        Val::MateIn(plies) => Reported::Mate((plies + 1) / 2),
        Val::MatedIn(plies) => Reported::Mate(-(plies / 2)),
    }
}

/// is `pv` a legal line from `p`? returns the end position
pub fn play_line(p: &Pos, pv: &[String]) -> Result<Pos, String> {
    let mut c = p.clone();
    for (i, u) in pv.iter().enumerate() {
        match Mv::from_uci(u) {
            Some(m) if c.is_legal(m) => c = c.make(m),
            _ => return Err(format!("move #{} {} is not legal in {}", i, u, c.to_fen())),
        }
    }
    Ok(c)
}
