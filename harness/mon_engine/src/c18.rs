//! C18 — the transposition store is a bounded FIFO map.

use std::collections::{HashMap, VecDeque};

use inkayaku_engine_core::verif::Table;
use monlib::{guarded_mut, json, panic_sig, Report};
use rand::rngs::StdRng;
use rand::Rng;

#[derive(Clone, Debug)]
pub enum Op {
    Put(u64, u64),
    Get(u64),
    Clear,
}

struct Model {
    cap: usize,
    order: VecDeque<u64>,
    map: HashMap<u64, u64>,
    evictions: u64,
}

impl Model {
    fn put(&mut self, k: u64, v: u64) {
        if self.map.insert(k, v).is_none() {
            self.order.push_back(k);
            if self.map.len() > self.cap {
                let old = self.order.pop_front().unwrap();
                self.map.remove(&old);
                self.evictions += 1;
            }
        }
    }
}

pub fn run_ops(cap: usize, ops: &[Op], rep: &mut Report) -> bool {
    let replay = || json!({"kind":"c18","capacity":cap,"ops":ops.iter().map(|o| match o { Op::Put(k, v) => json!(["put", k, v]), Op::Get(k) => json!(["get", k]), Op::Clear => json!(["clear"]) }).collect::<Vec<_>>()});
    let mut model = Model { cap, order: VecDeque::new(), map: HashMap::new(), evictions: 0 };
    let r = guarded_mut(|| {
        let mut t = Table::new(cap);
        let mut seen_keys: Vec<u64> = Vec::new();
        for (i, op) in ops.iter().enumerate() {
            match op {
                Op::Put(k, v) => { t.put(*k, *v); model.put(*k, *v); if !seen_keys.contains(k) { seen_keys.push(*k); } }
                Op::Get(k) => {
                    let got = t.get(*k);
                    let want = model.map.get(k).copied();
                    if got != want { return Err((i, "get", format!("get({}) = {:?}, model {:?}", k, got, want))); }
                }
                Op::Clear => { t.clear(); model.map.clear(); model.order.clear(); }
            }
            // checked after every operation
            if t.len() != model.map.len() { return Err((i, "len", format!("len {} != model {}", t.len(), model.map.len()))); }
            if t.len() > cap { return Err((i, "capacity", format!("len {} > capacity {}", t.len(), cap))); }
            if t.queue_len() != t.len() { return Err((i, "queue", format!("insertion queue holds {} keys, map {}", t.queue_len(), t.len()))); }
            let lf = t.load_factor();
            let want_lf = model.map.len() as f32 / cap as f32;
            if lf != want_lf { return Err((i, "load_factor", format!("load_factor {} != {}", lf, want_lf))); }
            // every key ever used: presence must agree (eviction removed the right victim)
            if i % 7 == 0 || i + 1 == ops.len() {
                for k in &seen_keys {
                    if t.get(*k) != model.map.get(k).copied() { return Err((i, "presence", format!("after op {}: key {} -> {:?}, model {:?}", i, k, t.get(*k), model.map.get(k)))); }
                }
            }
        }
        Ok(())
    });
    rep.eval();
    rep.add("operations", ops.len() as u64);
    rep.add("evictions", model.evictions);
    match r {
        Err(pm) => { rep.violation(&format!("table-{}", panic_sig(&pm)), format!("table panicked (capacity {}): {}", cap, pm), replay()); false }
        Ok(Err((i, what, d))) => { rep.violation(&format!("table-{}", what), format!("capacity {}, op #{} {:?}: {}", cap, i, ops.get(i), d), replay()); false }
        Ok(Ok(())) => true,
    }
}

pub fn random_case(rng: &mut StdRng, rep: &mut Report) {
    let cap = if rng.gen_bool(0.2) { rng.gen_range(1..=3) } else { rng.gen_range(1..=64) };
    let universe = (cap as u64 * rng.gen_range(1..=3)).max(2);
    let len = if rng.gen_bool(0.1) { rng.gen_range(1..=2000) } else { rng.gen_range(1..=300) };
    let mut ops = Vec::with_capacity(len);
    let mut next_val = 1u64;
    let base: u64 = if rng.gen_bool(0.5) { 0 } else { rng.gen::<u64>() >> 1 };
    let (mut reins_present, mut puts) = (0u64, 0u64);
    let mut present: std::collections::HashSet<u64> = Default::default();
    for _ in 0..len {
        let k = base.wrapping_add(rng.gen_range(0..universe).wrapping_mul(if base == 0 { 1 } else { 0x9E3779B97F4A7C15 }));
        match rng.gen_range(0..100) {
            0..=59 => { if present.contains(&k) { reins_present += 1; } present.insert(k); puts += 1; ops.push(Op::Put(k, next_val)); next_val += 1; }
            60..=94 => ops.push(Op::Get(k)),
            _ => { ops.push(Op::Clear); present.clear(); }
        }
    }
    rep.add("puts", puts);
    rep.add("puts_of_previously_used_key", reins_present);
    rep.count(&format!("capacity_bucket_{}", if cap <= 3 { "1-3" } else if cap <= 16 { "4-16" } else { "17-64" }));
    if run_ops(cap, &ops, rep) {
        rep.distinct_hash(monlib::fnv(format!("{}:{:?}", cap, ops).as_bytes()));
    }
    if rep.samples.len() < 4 && len < 14 {
        rep.sample(json!({"capacity": cap, "ops": format!("{:?}", ops)}));
    }
}

pub fn replay(case: &monlib::Value, rep: &mut Report) {
    if case["kind"].as_str() == Some("c18-huge") {
        unreachable_capacity_case(case["capacity"].as_str().and_then(|c| c.parse().ok()).unwrap_or(usize::MAX), case["keys"].as_u64().unwrap_or(100), rep);
        return;
    }
    if case["kind"].as_str() == Some("c18-large") {
        large_capacity_case(case["capacity"].as_u64().unwrap_or(1) as usize, case["extra"].as_u64().unwrap_or(1) as usize, rep);
        return;
    }
    let cap = case["capacity"].as_u64().unwrap_or(1) as usize;
    let ops: Vec<Op> = case["ops"].as_array().map(|a| a.iter().map(|o| match o[0].as_str() { Some("put") => Op::Put(o[1].as_u64().unwrap(), o[2].as_u64().unwrap()), Some("get") => Op::Get(o[1].as_u64().unwrap()), _ => Op::Clear }).collect()).unwrap_or_default();
    run_ops(cap, &ops, rep);
}

/// Capacities far beyond what the random cases use (the engine itself configures 10,000,000):
/// `capacity + extra` distinct keys are put in order; afterwards exactly the `extra` oldest keys must
/// be gone, everything else present, and the size must equal the capacity. No model map is kept
/// (memory) — for distinct sequential keys the expected content is known in closed form.
/// Capacities that can never be filled ("unbounded": usize::MAX, the neighbourhood of isize::MAX and of
/// 2^32): a few thousand distinct keys are stored; nothing may be evicted, every key is found with
/// its latest value, the size is the number of keys.
pub fn unreachable_capacity_case(cap: usize, n: u64, rep: &mut Report) {
    let replay = json!({"kind":"c18-huge","capacity":cap.to_string(),"keys":n});
    let r = guarded_mut(|| {
        let mut t = Table::new(cap);
        for k in 0..n {
            t.put(k.wrapping_mul(0x9E3779B97F4A7C15) | 1, k);
            if t.len() as u64 != k + 1 { return Err(format!("len {} after {} distinct puts", t.len(), k + 1)); }
        }
        for k in 0..n / 2 { t.put(k.wrapping_mul(0x9E3779B97F4A7C15) | 1, k + 1_000_000); }
        if t.len() as u64 != n || t.queue_len() as u64 != n { return Err(format!("len {} / queue {} after re-storing present keys, expected {}", t.len(), t.queue_len(), n)); }
        for k in 0..n {
            let want = if k < n / 2 { k + 1_000_000 } else { k };
            let got = t.get(k.wrapping_mul(0x9E3779B97F4A7C15) | 1);
            if got != Some(want) { return Err(format!("key #{} -> {:?}, expected {:?}", k, got, Some(want))); }
        }
        t.clear();
        if t.len() != 0 || t.queue_len() != 0 { return Err("clear left entries".into()); }
        t.put(7, 7);
        if t.get(7) != Some(7) || t.len() != 1 { return Err("put after clear lost".into()); }
        Ok(())
    });
    rep.eval();
    rep.count("unreachable_capacity_cases");
    rep.add("operations", n * 5 / 2);
    match r {
        Err(pm) => rep.violation(&format!("table-huge-capacity-{}", panic_sig(&pm)), format!("capacity {}: {}", cap, pm), replay),
        Ok(Err(d)) => rep.violation("table-huge-capacity", format!("capacity {}: {}", cap, d), replay),
        Ok(Ok(())) => rep.distinct_hash(monlib::mix(cap as u64, n)),
    }
}

pub fn large_capacity_case(cap: usize, extra: usize, rep: &mut Report) {
    let replay = json!({"kind":"c18-large","capacity":cap,"extra":extra});
    let r = guarded_mut(|| {
        let mut t = Table::new(cap);
        for k in 0..(cap + extra) as u64 {
            t.put(k.wrapping_mul(0x9E3779B97F4A7C15) | 1, k);
            if k as usize + 1 == cap && t.len() != cap { return Err(format!("len {} after {} distinct puts", t.len(), cap)); }
        }
        if t.len() != cap { return Err(format!("len {} != capacity {} after {} distinct puts", t.len(), cap, cap + extra)); }
        if t.queue_len() != t.len() { return Err(format!("queue {} != len {}", t.queue_len(), t.len())); }
        if t.load_factor() != 1.0 { return Err(format!("load factor {} for a full table", t.load_factor())); }
        for k in 0..(extra as u64 + 3) {
            let got = t.get(k.wrapping_mul(0x9E3779B97F4A7C15) | 1);
            let want = if (k as usize) < extra { None } else { Some(k) };
            if got != want { return Err(format!("key #{} -> {:?}, expected {:?}", k, got, want)); }
        }
        let last = (cap + extra - 1) as u64;
        if t.get(last.wrapping_mul(0x9E3779B97F4A7C15) | 1) != Some(last) { return Err("youngest key missing".into()); }
        Ok(())
    });
    rep.eval();
    rep.count("large_capacity_cases");
    rep.add("operations", (cap + extra) as u64);
    rep.max("max_capacity_exercised", cap as u64);
    match r {
        Err(pm) => rep.violation(&format!("table-{}", panic_sig(&pm)), pm, replay),
        Ok(Err(d)) => rep.violation("table-large-capacity", format!("capacity {}: {}", cap, d), replay),
        Ok(Ok(())) => rep.distinct_hash(monlib::mix(cap as u64, extra as u64)),
    }
}
