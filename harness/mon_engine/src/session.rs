//! Session drivers: the in-process engine (`Engine<CommandUciTx>`) and the real app binary over
//! pipes. Both record a transcript at the client boundary: every command just before it is handed
//! over, every answer as it is received, stamped from one sequence counter.

use std::io::{BufRead, BufReader, Write};
use std::process::{Child, ChildStdin, Command, Stdio};
use std::str::FromStr;
use std::sync::mpsc::{channel, Receiver, RecvTimeoutError};
use std::sync::Arc;
use std::time::{Duration, Instant};

use inkayaku_core::fen::Fen;
use inkayaku_engine_core::Engine;
use inkayaku_uci::command::CommandUciTx;
use inkayaku_uci::{Go, Info, Score, UciCommand, UciEngine, UciMove, UciTxCommand};
use monlib::{json, Value};
use refchess::{Mv, Pos};

pub fn mv_text(m: &UciMove) -> String {
    format!("{}{}{}", m.source.fen, m.target.fen, m.promote_to.as_ref().map_or(String::new(), |p| p.fen.to_string()))
}

/// What an `info` line carried, in harness terms.
#[derive(Clone, Debug, Default, PartialEq)]
pub struct InfoEv {
    pub depth: Option<u32>,
    pub time_ms: Option<u128>,
    pub nodes: Option<u64>,
    pub pv: Option<Vec<String>>,
    pub score_cp: Option<i32>,
    pub score_mate: Option<i32>,
    pub hashfull: Option<u32>,
    pub nps: Option<u64>,
}

#[derive(Clone, Debug, PartialEq)]
pub enum Out {
    Info(InfoEv),
    BestMove { best: Option<String>, ponder: Option<String> },
    Debug(String),
    Other(String),
}

#[derive(Clone, Debug)]
pub enum Ev {
    Cmd { seq: u64, text: String },
    Out { seq: u64, out: Out },
}

pub fn info_ev(i: &Info) -> InfoEv {
    InfoEv {
        depth: i.depth,
        time_ms: i.time.map(|d| d.as_millis()),
        nodes: i.nodes,
        pv: i.principal_variation.as_ref().map(|v| v.iter().map(mv_text).collect()),
        score_cp: match i.score { Some(Score::Centipawn { score }) => Some(score), Some(Score::CentipawnBounded { score, .. }) => Some(score), _ => None },
        score_mate: match i.score { Some(Score::Mate { mate_in }) => Some(mate_in), _ => None },
        hashfull: i.hash_full,
        nps: i.nps,
    }
}

/// Abstract GUI-side command (rendered to a `UciCommand` for the in-process engine and to text for the app).
#[derive(Clone, Debug)]
pub enum Gui {
    Uci,
    IsReady,
    NewGame,
    Debug(bool),
    Position { fen: Option<String>, moves: Vec<String> },
    Go(GoSpec),
    Stop,
    PonderHit,
    /// `register later` (false) or `register name .. code ..` (true)
    Register(bool),
    Quit,
}

#[derive(Clone, Debug, Default)]
pub struct GoSpec {
    pub depth: Option<u64>,
    pub movetime: Option<u64>,
    pub wtime: Option<u64>,
    pub btime: Option<u64>,
    pub winc: Option<u64>,
    pub binc: Option<u64>,
    pub infinite: bool,
    pub searchmoves: Vec<String>,
    /// `go ponder ...` (the engine searches the same way; `ponderhit` may follow)
    pub ponder: bool,
}

impl GoSpec {
    pub fn depth(d: u64) -> GoSpec {
        GoSpec { depth: Some(d), ..Default::default() }
    }
    pub fn kind(&self) -> &'static str {
        if self.infinite { "infinite" } else if self.depth.is_some() && self.movetime.is_none() && self.wtime.is_none() { "depth" } else if self.movetime.is_some() { "movetime" } else if self.wtime.is_some() || self.btime.is_some() { "clock" } else { "bare" }
    }
}

impl Gui {
    pub fn text(&self) -> String {
        match self {
            Gui::Uci => "uci".into(),
            Gui::IsReady => "isready".into(),
            Gui::NewGame => "ucinewgame".into(),
            Gui::Debug(b) => format!("debug {}", if *b { "on" } else { "off" }),
            Gui::Position { fen, moves } => {
                let mut s = match fen { None => "position startpos".to_string(), Some(f) => format!("position fen {}", f) };
                if !moves.is_empty() { s.push_str(" moves "); s.push_str(&moves.join(" ")); }
                s
            }
            Gui::Go(g) => {
                let mut s = "go".to_string();
                if !g.searchmoves.is_empty() { s.push_str(" searchmoves "); s.push_str(&g.searchmoves.join(" ")); }
                if g.ponder { s.push_str(" ponder"); }
                if let Some(v) = g.wtime { s.push_str(&format!(" wtime {}", v)); }
                if let Some(v) = g.btime { s.push_str(&format!(" btime {}", v)); }
                if let Some(v) = g.winc { s.push_str(&format!(" winc {}", v)); }
                if let Some(v) = g.binc { s.push_str(&format!(" binc {}", v)); }
                if let Some(v) = g.depth { s.push_str(&format!(" depth {}", v)); }
                if let Some(v) = g.movetime { s.push_str(&format!(" movetime {}", v)); }
                if g.infinite { s.push_str(" infinite"); }
                s
            }
            Gui::Stop => "stop".into(),
            Gui::PonderHit => "ponderhit".into(),
            Gui::Register(false) => "register later".into(),
            Gui::Register(true) => "register name Some Body code 12345".into(),
            Gui::Quit => "quit".into(),
        }
    }

    pub fn command(&self) -> UciCommand {
        match self {
            Gui::Uci => UciCommand::Uci,
            Gui::IsReady => UciCommand::IsReady,
            Gui::NewGame => UciCommand::UciNewGame,
            Gui::Debug(b) => UciCommand::SetDebug { debug: *b },
            Gui::Position { fen, moves } => UciCommand::PositionFrom {
                fen: match fen { None => Fen::default(), Some(f) => Fen::from_str(f).expect("harness generates valid FENs") },
                moves: moves.iter().map(|m| UciMove::from_str(m).expect("harness generates valid move text")).collect(),
            },
            Gui::Go(g) => {
                let ms = |v: Option<u64>| v.map(Duration::from_millis);
                UciCommand::Go { go: Go { search_moves: g.searchmoves.iter().map(|m| UciMove::from_str(m).expect("valid move text")).collect(), white_time: ms(g.wtime), black_time: ms(g.btime), white_increment: ms(g.winc), black_increment: ms(g.binc), depth: g.depth, move_time: ms(g.movetime), infinite: g.infinite, ponder: g.ponder, ..Go::default() } }
            }
            Gui::Stop => UciCommand::Stop,
            Gui::PonderHit => UciCommand::PonderHit,
            Gui::Register(false) => UciCommand::RegisterLater,
            Gui::Register(true) => UciCommand::Register { name: "Some Body".into(), code: "12345".into() },
            Gui::Quit => UciCommand::Quit,
        }
    }
}

/// The position a `position` command defines, per the reference model.
pub fn position_of(fen: &Option<String>, moves: &[String]) -> Option<(Pos, Vec<Pos>)> {
    let mut p = match fen { None => Pos::startpos(), Some(f) => Pos::from_fen(f).ok()? };
    let mut hist = vec![p.clone()];
    for m in moves {
        let mv = Mv::from_uci(m)?;
        if !p.is_legal(mv) { return None; }
        p = p.make(mv);
        hist.push(p.clone());
    }
    Some((p, hist))
}

#[derive(Debug)]
pub enum WaitErr {
    Timeout,
    Disconnected,
}

pub trait Driver {
    fn send(&mut self, g: &Gui) -> Result<(), String>;
    /// next output event, or error
    fn recv(&mut self, timeout: Duration) -> Result<Out, WaitErr>;
    fn transcript(&self) -> &Vec<Ev>;
    fn is_app(&self) -> bool;

    /// read until the next bestmove; returns everything read (bestmove last)
    fn until_bestmove(&mut self, timeout: Duration) -> Result<Vec<Out>, (WaitErr, Vec<Out>)> {
        let deadline = Instant::now() + timeout;
        let mut v = Vec::new();
        loop {
            let left = deadline.saturating_duration_since(Instant::now());
            if left.is_zero() { return Err((WaitErr::Timeout, v)); }
            match self.recv(left) {
                Ok(o) => {
                    let is_bm = matches!(o, Out::BestMove { .. });
                    v.push(o);
                    if is_bm { return Ok(v); }
                }
                Err(e) => return Err((e, v)),
            }
        }
    }

    /// Like `until_bestmove`, but while nothing arrives the search thread's liveness is probed every
    /// few seconds with a harmless command (`debug off` goes to the search thread's mailbox; handing
    /// it over fails once that thread is gone), so a crashed search is reported at once instead of
    /// after the whole watchdog period.
    fn await_bestmove(&mut self, total: Duration) -> Result<Vec<Out>, (WaitErr, Vec<Out>)> {
        let deadline = Instant::now() + total;
        let mut all = Vec::new();
        loop {
            let left = deadline.saturating_duration_since(Instant::now());
            if left.is_zero() { return Err((WaitErr::Timeout, all)); }
            match self.until_bestmove(left.min(Duration::from_secs(4))) {
                Ok(mut v) => { all.append(&mut v); return Ok(all); }
                Err((WaitErr::Disconnected, mut v)) => { all.append(&mut v); return Err((WaitErr::Disconnected, all)); }
                Err((WaitErr::Timeout, mut v)) => {
                    let progressed = !v.is_empty();
                    all.append(&mut v);
                    if !progressed && self.send(&Gui::Debug(false)).is_err() {
                        return Err((WaitErr::Disconnected, all));
                    }
                }
            }
        }
    }

    /// non-blocking drain (plus a short grace period)
    fn drain(&mut self, grace: Duration) -> Vec<Out> {
        let mut v = Vec::new();
        while let Ok(o) = self.recv(grace) {
            v.push(o);
        }
        v
    }
}

pub struct InProc {
    engine: Option<Engine<CommandUciTx>>,
    rx: Receiver<UciTxCommand>,
    seq: u64,
    pub events: Vec<Ev>,
    pub record_infos: bool,
}

impl InProc {
    pub fn new() -> InProc {
        let (tx, rx) = channel();
        let engine = Engine::new(Arc::new(CommandUciTx::new(tx)), false);
        InProc { engine: Some(engine), rx, seq: 0, events: Vec::new(), record_infos: true }
    }
    fn convert(c: UciTxCommand) -> Out {
        match c {
            UciTxCommand::Info { info } => Out::Info(info_ev(&info)),
            UciTxCommand::BestMove { best_move, ponder_move } => Out::BestMove { best: best_move.as_ref().map(mv_text), ponder: ponder_move.as_ref().map(mv_text) },
            UciTxCommand::Debug { message } => Out::Debug(message),
            other => Out::Other(format!("{:?}", other)),
        }
    }
}

impl Driver for InProc {
    fn send(&mut self, g: &Gui) -> Result<(), String> {
        self.seq += 1;
        self.events.push(Ev::Cmd { seq: self.seq, text: g.text() });
        let cmd = g.command();
        let is_quit = matches!(g, Gui::Quit);
        let engine = self.engine.as_mut().ok_or_else(|| "engine already quit".to_string())?;
        // `accept` panics when the search thread is gone (send on a closed channel)
        let r = monlib::guarded_mut(|| engine.accept(cmd));
        if is_quit { self.engine = None; }
        r
    }
    fn recv(&mut self, timeout: Duration) -> Result<Out, WaitErr> {
        match self.rx.recv_timeout(timeout) {
            Ok(c) => {
                let o = Self::convert(c);
                self.seq += 1;
                if self.record_infos || !matches!(o, Out::Info(_)) {
                    self.events.push(Ev::Out { seq: self.seq, out: o.clone() });
                }
                Ok(o)
            }
            Err(RecvTimeoutError::Timeout) => Err(WaitErr::Timeout),
            Err(RecvTimeoutError::Disconnected) => Err(WaitErr::Disconnected),
        }
    }
    fn transcript(&self) -> &Vec<Ev> { &self.events }
    fn is_app(&self) -> bool { false }
}

impl Drop for InProc {
    fn drop(&mut self) {
        if let Some(mut e) = self.engine.take() {
            let _ = monlib::guarded_mut(|| { e.accept(UciCommand::Stop); e.accept(UciCommand::Quit); });
        }
    }
}

/// The app binary driven over pipes. Lines of stdout are parsed into `Out` by our own grammar
/// (see c16.rs); here only the split into info / bestmove / other is made.
pub struct App {
    child: Child,
    stdin: Option<ChildStdin>,
    rx: Receiver<String>,
    seq: u64,
    pub events: Vec<Ev>,
    pub raw_lines: Vec<String>,
}

impl App {
    pub fn spawn(path: &str, env: &[(&str, String)]) -> Result<App, String> {
        let mut cmd = Command::new(path);
        cmd.stdin(Stdio::piped()).stdout(Stdio::piped()).stderr(Stdio::null());
        for (k, v) in env { cmd.env(k, v); }
        let mut child = cmd.spawn().map_err(|e| format!("spawn {}: {}", path, e))?;
        let stdout = child.stdout.take().unwrap();
        let stdin = child.stdin.take();
        let (tx, rx) = channel();
        std::thread::spawn(move || {
            for line in BufReader::new(stdout).lines() {
                match line { Ok(l) => { if tx.send(l).is_err() { break; } } Err(_) => break }
            }
        });
        Ok(App { child, stdin, rx, seq: 0, events: Vec::new(), raw_lines: Vec::new() })
    }

    pub fn parse_line(line: &str) -> Out {
        let toks: Vec<&str> = line.split(' ').filter(|t| !t.is_empty()).collect();
        match toks.first().copied() {
            Some("bestmove") => Out::BestMove { best: toks.get(1).filter(|t| **t != "0000").map(|s| s.to_string()), ponder: if toks.get(2) == Some(&"ponder") { toks.get(3).map(|s| s.to_string()) } else { None } },
            Some("info") => {
                let mut e = InfoEv::default();
                let mut i = 1;
                let keys = ["depth", "seldepth", "time", "nodes", "pv", "multipv", "score", "currmove", "currmovenumber", "hashfull", "nps", "tbhits", "sbhits", "cpuload", "string", "refutation", "currline"];
                while i < toks.len() {
                    match toks[i] {
                        "depth" => { e.depth = toks.get(i + 1).and_then(|v| v.parse().ok()); i += 2; }
                        "time" => { e.time_ms = toks.get(i + 1).and_then(|v| v.parse().ok()); i += 2; }
                        "nodes" => { e.nodes = toks.get(i + 1).and_then(|v| v.parse().ok()); i += 2; }
                        "hashfull" => { e.hashfull = toks.get(i + 1).and_then(|v| v.parse().ok()); i += 2; }
                        "nps" => { e.nps = toks.get(i + 1).and_then(|v| v.parse().ok()); i += 2; }
                        "score" => {
                            match toks.get(i + 1).copied() {
                                Some("cp") => e.score_cp = toks.get(i + 2).and_then(|v| v.parse().ok()),
                                Some("mate") => e.score_mate = toks.get(i + 2).and_then(|v| v.parse().ok()),
                                _ => {}
                            }
                            i += 3;
                        }
                        "pv" => {
                            let mut v = Vec::new();
                            i += 1;
                            while i < toks.len() && !keys.contains(&toks[i]) { v.push(toks[i].to_string()); i += 1; }
                            e.pv = Some(v);
                        }
                        "string" => break,
                        _ => i += 1,
                    }
                }
                Out::Info(e)
            }
            _ => Out::Other(line.to_string()),
        }
    }

    /// close stdin and wait for the process; returns exit code (None = killed after timeout)
    pub fn finish(&mut self, timeout: Duration) -> Option<i32> {
        self.stdin = None;
        let deadline = Instant::now() + timeout;
        loop {
            match self.child.try_wait() {
                Ok(Some(st)) => return st.code().or(Some(-1)),
                Ok(None) => {
                    if Instant::now() > deadline { let _ = self.child.kill(); let _ = self.child.wait(); return None; }
                    std::thread::sleep(Duration::from_millis(5));
                }
                Err(_) => return None,
            }
        }
    }
}

impl Driver for App {
    fn send(&mut self, g: &Gui) -> Result<(), String> {
        self.seq += 1;
        let text = g.text();
        self.events.push(Ev::Cmd { seq: self.seq, text: text.clone() });
        match self.stdin.as_mut() {
            Some(s) => s.write_all(format!("{}\n", text).as_bytes()).and_then(|_| s.flush()).map_err(|e| format!("write to engine failed: {}", e)),
            None => Err("stdin closed".into()),
        }
    }
    fn recv(&mut self, timeout: Duration) -> Result<Out, WaitErr> {
        match self.rx.recv_timeout(timeout) {
            Ok(line) => {
                self.raw_lines.push(line.clone());
                let o = Self::parse_line(&line);
                self.seq += 1;
                self.events.push(Ev::Out { seq: self.seq, out: o.clone() });
                Ok(o)
            }
            Err(RecvTimeoutError::Timeout) => Err(WaitErr::Timeout),
            Err(RecvTimeoutError::Disconnected) => Err(WaitErr::Disconnected),
        }
    }
    fn transcript(&self) -> &Vec<Ev> { &self.events }
    fn is_app(&self) -> bool { true }
}

impl Drop for App {
    fn drop(&mut self) {
        let _ = self.child.kill();
        let _ = self.child.wait();
    }
}

pub fn transcript_json(evs: &[Ev], max: usize) -> Value {
    let mut v = Vec::new();
    let skip = evs.len().saturating_sub(max);
    for e in evs.iter().skip(skip) {
        v.push(match e {
            Ev::Cmd { seq, text } => json!({"seq": seq, "cmd": text}),
            Ev::Out { seq, out } => json!({"seq": seq, "out": format!("{:?}", out)}),
        });
    }
    Value::Array(v)
}
