//! C08 — shallow search scores are exact minimax values; forced mates are found and real.

use monlib::{json, Report};
use rand::rngs::StdRng;
use rand::Rng;
use refchess::gen;
use refchess::search::{defender_lost_within, forced_mate_plies};
use refchess::*;

use crate::common::*;
use crate::session::*;

pub const REF_BUDGET: u64 = 3_000_000;

/// one exact-value comparison at depth d
pub fn check_value(sess: &mut dyn Driver, p: &Pos, d: u32, rep: &mut Report, with_position: bool) {
    let _ = with_position;
    check_value_given_as(sess, p, d, rep, None);
}

/// The same comparison with the position handed over as `position fen START moves ...` — a game
/// history in which no position occurs twice. At depth <= 3 no line can then reach a third
/// occurrence (at most one in the history, one on the line), so the exact value is the plain minimax
/// value of the end position: a history is no licence to value anything as a draw.
pub fn check_value_with_history(sess: &mut dyn Driver, start: &Pos, moves: &[Mv], d: u32, rep: &mut Report) {
    let mut cur = start.clone();
    let mut keys = vec![cur.key()];
    for m in moves {
        cur = cur.make(*m);
        if keys.contains(&cur.key()) { return; }
        keys.push(cur.key());
    }
    if cur.half + 4 >= 100 || cur.legal_moves().is_empty() { return; }
    rep.count("value_searches_with_a_non_repeating_history");
    let reversible_tail = moves.iter().rev().take(4).count() == 4 && cur.half >= 4;
    if reversible_tail { rep.count("value_searches_with_history_whose_last_four_plies_are_reversible"); }
    let ms: Vec<String> = moves.iter().map(|m| m.uci()).collect();
    check_value_given_as(sess, &cur, d, rep, Some((start.to_fen(), ms)));
}

fn check_value_given_as(sess: &mut dyn Driver, p: &Pos, d: u32, rep: &mut Report, given: Option<(String, Vec<String>)>) {
    let fen = p.to_fen();
    let replay = match &given { None => json!({"kind":"c08","fen":fen,"depth":d}), Some((s, ms)) => json!({"kind":"c08-history","fen":s,"moves":ms,"depth":d}) };
    let legal = p.legal_moves();
    if legal.is_empty() { return; }
    let (want, ref_nodes) = match reference_value(p, d, REF_BUDGET) {
        Some(x) => x,
        None => { rep.inconclusive("reference search exceeded its node budget"); return; }
    };
    let (cmd_fen, cmd_moves) = match &given { None => (fen.clone(), Vec::new()), Some((s, ms)) => (s.clone(), ms.clone()) };
    let out = match search(sess, Some((&Some(cmd_fen), &cmd_moves[..])), &GoSpec::depth(d as u64)) {
        Ok(o) => o,
        Err(e) if e.starts_with("watchdog") => {
            rep.inconclusive("watchdog fired");
            let v = rep.extra.entry("watchdog_cases".into()).or_insert_with(|| json!([]));
            if let Some(a) = v.as_array_mut() { a.push(json!({"fen": fen, "depth": d, "what": e})); }
            return;
        }
        Err(e) => { rep.violation("search-failed", format!("go depth {} on {}: {}", d, fen, e), replay); return; }
    };
    rep.eval();
    rep.count(&format!("value_searches_depth_{}", d));
    rep.add("reference_nodes", ref_nodes);
    rep.distinct_hash(monlib::mix(p.key().h64(), d as u64));
    let info = match out.score_at_depth(d) {
        Some(i) => i.clone(),
        None => { rep.violation("no-score-at-depth", format!("go depth {} on {}: no info line with depth {} and a score (infos: {:?})", d, fen, d, out.infos.iter().rev().take(2).collect::<Vec<_>>()), replay); return; }
    };
    let got = reported(&info).unwrap();
    let want_r = val_as_reported(want);
    match want_r { Reported::Mate(_) => rep.count("values_that_are_mates"), Reported::Cp(_) => rep.count("values_that_are_centipawns") }
    if got != want_r {
        rep.violation(&format!("score-differs:depth-{}:{}", d, match (got, want_r) { (Reported::Cp(_), Reported::Cp(_)) => "cp", (Reported::Mate(_), Reported::Mate(_)) => "mate-distance", _ => "mate-vs-cp" }), format!("go depth {} on {}: engine {:?}, exact minimax {:?}", d, fen, got, want_r), replay.clone());
    }
    // the announced move attains the value
    match out.best.as_ref().and_then(|b| Mv::from_uci(b)) {
        Some(m) if legal.contains(&m) => {
            match reference_value_after(p, m, d, REF_BUDGET) {
                None => rep.inconclusive("reference search exceeded its node budget"),
                Some(v) => {
                    if val_as_reported(v) != want_r || v != want {
                        rep.violation(&format!("bestmove-does-not-attain-value:depth-{}", d), format!("go depth {} on {}: bestmove {} is worth {:?}, position is worth {:?}", d, fen, m.uci(), v, want), replay.clone());
                    }
                }
            }
        }
        other => rep.violation("bestmove-missing-or-illegal", format!("go depth {} on {}: bestmove {:?} ({:?})", d, fen, out.best, other), replay.clone()),
    }
    check_mate_pv(p, &out, rep, &replay);
    if rep.samples.len() < 6 && rep.evaluations % 97 == 0 {
        rep.sample(json!({"fen": fen, "depth": d, "engine": format!("{:?}", got), "reference": format!("{:?}", want_r), "bestmove": out.best}));
    }
}

/// whenever a positive `mate N` is reported, the PV is a legal line of 2N-1 plies ending in checkmate
pub fn check_mate_pv(p: &Pos, out: &Outcome, rep: &mut Report, replay: &monlib::Value) {
    for i in &out.infos {
        if let (Some(n), Some(pv)) = (i.score_mate, &i.pv) {
            if n > 0 {
                rep.count("positive_mate_reports");
                match play_line(p, pv) {
                    Err(e) => rep.violation("mate-pv-illegal", format!("mate {} reported from {} with pv {:?}: {}", n, p.to_fen(), pv, e), replay.clone()),
                    Ok(end) => {
                        if pv.len() != (2 * n - 1) as usize || !end.is_mate() {
                            rep.violation("mate-pv-not-a-mate", format!("mate {} reported from {} with pv {:?} ({} plies, ends in mate: {})", n, p.to_fen(), pv, pv.len(), end.is_mate()), replay.clone());
                        }
                    }
                }
            }
        }
    }
}

/// forced mate in N (pure rules): depth 2N-1 must report mate N and keep the mate
pub fn check_forced_mate(sess: &mut dyn Driver, p: &Pos, rep: &mut Report) -> bool {
    let plies = match forced_mate_plies(p, 5) { Some(x) => x, None => return false };
    let n = (plies + 1) / 2;
    let d = plies;
    let fen = p.to_fen();
    let replay = json!({"kind":"c08-mate","fen":fen,"mate_in":n});
    let out = match search(sess, Some((&Some(fen.clone()), &[])), &GoSpec::depth(d as u64)) {
        Ok(o) => o,
        Err(e) if e.starts_with("watchdog") => { rep.inconclusive("watchdog fired"); return true; }
        Err(e) => { rep.violation("search-failed", format!("go depth {} on {}: {}", d, fen, e), replay); return true; }
    };
    rep.eval();
    rep.count(&format!("forced_mate_in_{}_{}", n, if p.wtm { "white" } else { "black" }));
    rep.distinct_hash(monlib::mix(p.key().h64(), 100 + d as u64));
    let got = out.score_at_depth(d).and_then(reported);
    if got != Some(Reported::Mate(n as i32)) {
        rep.violation(&format!("forced-mate-not-reported:mate-in-{}", n), format!("{} is mate in {} by the rules; go depth {} reported {:?}", fen, n, d, got), replay.clone());
    }
    match out.best.as_ref().and_then(|b| Mv::from_uci(b)) {
        Some(m) if p.is_legal(m) => {
            if !defender_lost_within(&p.make(m), plies - 1) {
                rep.violation(&format!("bestmove-loses-forced-mate:mate-in-{}", n), format!("{} is mate in {}; bestmove {} does not keep it", fen, n, m.uci()), replay.clone());
            }
        }
        other => rep.violation("bestmove-missing-or-illegal", format!("{}: {:?} {:?}", fen, out.best, other), replay.clone()),
    }
    check_mate_pv(p, &out, rep, &replay);
    true
}

/// "irrespective of what was searched before on the same engine instance": first a game fragment is
/// replayed on the instance whose plies coincide with the plies the later search will walk (the
/// position P and its successors occur twice, at the same ply indices and parity), then P is given as
/// a bare FEN with a half-move clock that reaches back over those plies. Nothing of the earlier
/// command may count as history: the value must still be the exact minimax value.
pub fn check_after_earlier_game(sess: &mut dyn Driver, base: &Pos, rng: &mut StdRng, rep: &mut Report) -> bool {
    let mut p = base.clone();
    if p.ep.is_some() { return false; }
    p.half = rng.gen_range(8..=40);
    p.full = p.full.max(6);
    let quiet = |q: &Pos| -> Vec<Mv> { q.legal_moves().into_iter().filter(|m| !q.is_capture(*m) && m.promo == 0 && !q.is_castle(*m) && q.b[m.from as usize].abs() != P).collect() };
    let mut cycle = None;
    'outer: for a in quiet(&p) {
        let p1 = p.make(a);
        for b in quiet(&p1) {
            let p2 = p1.make(b);
            let ar = Mv { from: a.to, to: a.from, promo: 0 };
            if !p2.is_legal(ar) || p2.is_capture(ar) { continue; }
            let p3 = p2.make(ar);
            let br = Mv { from: b.to, to: b.from, promo: 0 };
            if !p3.is_legal(br) || p3.is_capture(br) { continue; }
            if p3.make(br).key() == p.key() { cycle = Some([a, b, ar, br]); if rng.gen_bool(0.5) { break 'outer; } }
        }
    }
    let cycle = match cycle { Some(c) => c, None => return false };
    let mut start = p.clone();
    start.full = p.full - 4;
    start.half = p.half - 8;
    let hist: Vec<String> = cycle.iter().chain(cycle.iter()).map(|m| m.uci()).collect();
    match position_of(&Some(start.to_fen()), &hist) { Some((end, _)) if end == p => {}, _ => return false }
    if search(sess, Some((&Some(start.to_fen()), &hist)), &GoSpec::depth(1)).is_err() { return false; }
    if rng.gen_bool(0.5) { let _ = sess.send(&Gui::NewGame); }
    rep.count("value_searches_after_an_earlier_game_on_the_same_plies");
    let d = rng.gen_range(1..=3);
    check_value(sess, &p, d, rep, true);
    true
}

pub fn run(args: &monlib::Args, rep: &mut Report) {
    let mut rng = gen::rng(args.seed, args.shard, 8);
    let mut starts = gen::Starts::new(40, 30000, args.shard as usize * 11);
    let n = args.budget(40_000, 800_000) / args.nshards.max(1);
    let mut sess = InProc::new();
    sess.record_infos = false;
    let mut done = 0u64;
    while done < n {
        // unrelated activity on the same instance: new games, other searches
        if rng.gen_range(0..25) == 0 { let _ = sess.send(&Gui::NewGame); rep.count("ucinewgame_interleaved"); }
        if rng.gen_range(0..10) == 0 {
            let q = starts.next(&mut rng);
            if !q.legal_moves().is_empty() {
                let hist: Vec<String> = gen::walk(&mut rng, &q, gen::Policy::Uniform, 6).1.iter().map(|m| m.uci()).collect();
                let _ = search(&mut sess, Some((&Some(q.to_fen()), &hist)), &GoSpec::depth(rng.gen_range(1..=3)));
                rep.count("unrelated_searches_interleaved");
            }
        }
        // ... a search under a (tiny) time budget: nothing of it may limit the fixed-depth searches that follow
        if rng.gen_range(0..12) == 0 {
            let q = starts.next(&mut rng);
            if !q.legal_moves().is_empty() {
                let go = match rng.gen_range(0..3) { 0 => GoSpec { movetime: Some(*[0u64, 1, 3].get(rng.gen_range(0..3)).unwrap()), ..Default::default() }, 1 => GoSpec { wtime: Some(1), btime: Some(1), ..Default::default() }, _ => GoSpec { wtime: Some(30), btime: Some(30), winc: Some(1), binc: Some(1), ..Default::default() } };
                let _ = search(&mut sess, Some((&Some(q.to_fen()), &[])), &go);
                rep.count("timed_searches_interleaved");
            }
        }
        if rng.gen_range(0..5) == 0 {
            let s = starts.next(&mut rng);
            let len = rng.gen_range(2..24);
            let policy = if rng.gen_bool(0.6) { gen::Policy::Shuffle } else { gen::POLICIES[rng.gen_range(0..3)] };
            let (_, ms) = gen::walk(&mut rng, &s, policy, len);
            if !ms.is_empty() {
                let d = rng.gen_range(1..=3);
                check_value_with_history(&mut sess, &s, &ms, d, rep);
            }
        }
        let kind = rng.gen_range(0..10);
        if kind < 2 {
            let s = starts.next(&mut rng);
            let len = rng.gen_range(0..40);
            let p = gen::walk(&mut rng, &s, gen::Policy::Shuffle, len).0.pop().unwrap();
            if p.legal_moves().is_empty() { continue; }
            if check_after_earlier_game(&mut sess, &p, &mut rng, rep) { done += 1; }
        } else if kind < 6 {
            // walk positions, clock far from the limit
            let s = starts.next(&mut rng);
            let len = rng.gen_range(0..40);
            let policy = gen::POLICIES[rng.gen_range(0..3)];
            let p = gen::walk(&mut rng, &s, policy, len).0.pop().unwrap();
            if p.half > 40 || p.legal_moves().is_empty() { continue; }
            let d = rng.gen_range(1..=3);
            check_value(&mut sess, &p, d, rep, true);
            done += 1;
        } else {
            let p = gen::mating_material_position(&mut rng);
            if !check_forced_mate(&mut sess, &p, rep) {
                let d = rng.gen_range(1..=3);
                check_value(&mut sess, &p, d, rep, true);
            } else if rng.gen_bool(0.5) {
                let d = rng.gen_range(1..=3);
                check_value(&mut sess, &p, d, rep, true);
            }
            done += 1;
        }
        sess.events.clear();
    }
}

pub fn replay(case: &monlib::Value, rep: &mut Report) {
    let p = Pos::from_fen(case["fen"].as_str().unwrap()).unwrap();
    let mut sess = InProc::new();
    if case["kind"].as_str() == Some("c08-mate") {
        check_forced_mate(&mut sess, &p, rep);
    } else if case["kind"].as_str() == Some("c08-history") {
        let ms: Vec<Mv> = case["moves"].as_array().map(|a| a.iter().filter_map(|v| v.as_str().and_then(Mv::from_uci)).collect()).unwrap_or_default();
        check_value_with_history(&mut sess, &p, &ms, case["depth"].as_u64().unwrap_or(2) as u32, rep);
    } else {
        check_value(&mut sess, &p, case["depth"].as_u64().unwrap_or(2) as u32, rep, true);
    }
}
