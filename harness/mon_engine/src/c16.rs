//! C16 — the engine's output stream is well-formed and self-consistent.

use std::time::Duration;

use monlib::{json, Report};
use rand::rngs::StdRng;
use rand::seq::SliceRandom;
use rand::Rng;
use refchess::gen;
use refchess::*;

use crate::common::*;
use crate::session::*;
use crate::sessions::*;

fn is_move(t: &str) -> bool {
    Mv::from_uci(t).is_some() || (t.len() == 5 && Mv::from_uci(&t[..4]).is_some() && "qrbnk".contains(&t[4..5]))
}
fn is_uint(t: &str) -> bool {
    !t.is_empty() && t.bytes().all(|b| b.is_ascii_digit())
}
fn is_int(t: &str) -> bool {
    is_uint(t) || (t.starts_with('-') && is_uint(&t[1..]))
}

/// engine-to-GUI grammar (UCI specification, April 2006)
pub fn validate_line(line: &str) -> Result<&'static str, String> {
    if line != line.trim_end_matches(|c| c == '\r') { return Err("carriage return".into()); }
    let toks: Vec<&str> = line.split(' ').collect();
    if toks.iter().any(|t| t.is_empty()) && toks.first() != Some(&"info") && toks.first() != Some(&"id") { return Err("empty token (double space)".into()); }
    match toks[0] {
        "id" => if toks.len() >= 3 && (toks[1] == "name" || toks[1] == "author") { Ok("id") } else { Err("bad id line".into()) },
        "uciok" => if toks.len() == 1 { Ok("uciok") } else { Err("trailing text after uciok".into()) },
        "readyok" => if toks.len() == 1 { Ok("readyok") } else { Err("trailing text after readyok".into()) },
        "bestmove" => {
            let ok = match toks.len() { 2 => toks[1] == "0000" || is_move(toks[1]), 4 => (toks[1] == "0000" || is_move(toks[1])) && toks[2] == "ponder" && is_move(toks[3]), _ => false };
            if ok { Ok("bestmove") } else { Err("bad bestmove line".into()) }
        }
        "copyprotection" | "registration" => if toks.len() == 2 && ["checking", "ok", "error"].contains(&toks[1]) { Ok("protection") } else { Err("bad protection line".into()) },
        "option" => if toks.len() >= 5 && toks[1] == "name" { Ok("option") } else { Err("bad option line".into()) },
        "info" => {
            let keys = ["depth", "seldepth", "time", "nodes", "pv", "multipv", "score", "currmove", "currmovenumber", "hashfull", "nps", "tbhits", "sbhits", "cpuload", "string", "refutation", "currline"];
            let mut i = 1;
            if toks.len() == 1 { return Err("info without content".into()); }
            let mut seen: Vec<&str> = Vec::new();
            while i < toks.len() {
                let k = toks[i];
                if !keys.contains(&k) { return Err(format!("unknown info key {:?}", k)); }
                if seen.contains(&k) { return Err(format!("info key {} repeated", k)); }
                seen.push(k);
                match k {
                    "depth" | "seldepth" | "time" | "nodes" | "multipv" | "currmovenumber" | "hashfull" | "nps" | "tbhits" | "sbhits" | "cpuload" => {
                        match toks.get(i + 1) { Some(v) if is_uint(v) => i += 2, other => return Err(format!("info {} needs a non-negative integer, got {:?}", k, other)) }
                    }
                    "currmove" => match toks.get(i + 1) { Some(v) if is_move(v) => i += 2, other => return Err(format!("info currmove needs a move, got {:?}", other)) },
                    "score" => {
                        match (toks.get(i + 1).copied(), toks.get(i + 2)) {
                            (Some("cp"), Some(v)) | (Some("mate"), Some(v)) if is_int(v) => i += 3,
                            other => return Err(format!("bad score {:?}", other)),
                        }
                        if let Some(b) = toks.get(i) { if *b == "lowerbound" || *b == "upperbound" { i += 1; } }
                    }
                    "pv" | "refutation" | "currline" => {
                        i += 1;
                        if k == "currline" { if let Some(v) = toks.get(i) { if is_uint(v) { i += 1; } } }
                        let start = i;
                        while i < toks.len() && is_move(toks[i]) { i += 1; }
                        if i == start { return Err(format!("info {} without moves", k)); }
                    }
                    "string" => { i = toks.len(); }
                    _ => unreachable!(),
                }
            }
            Ok("info")
        }
        other => Err(format!("not a UCI engine-to-GUI message: first word {:?}", other)),
    }
}

/// consistency of one search's output (typed events)
pub fn judge_search(root: &Pos, out: &Outcome, rep: &mut Report, replay: &monlib::Value) {
    rep.eval();
    rep.count("searches_judged");
    let fen = root.to_fen();
    let mut last: [Option<u128>; 3] = [None, None, None];
    let names = ["depth", "nodes", "time"];
    for i in &out.infos {
        rep.count("info_events");
        let vals = [i.depth.map(|d| d as u128), i.nodes.map(|n| n as u128), i.time_ms];
        for k in 0..3 {
            if let Some(v) = vals[k] {
                if let Some(prev) = last[k] {
                    if v < prev {
                        rep.violation(&format!("{}-decreases-within-search", names[k]), format!("search of {}: {} went from {} to {}", fen, names[k], prev, v), replay.clone());
                    }
                }
                last[k] = Some(v);
            }
        }
        if let Some(pv) = &i.pv {
            rep.count("pvs_validated");
            rep.max("max_pv_length", pv.len() as u64);
            if pv.is_empty() {
                rep.violation("empty-pv", format!("search of {}", fen), replay.clone());
            } else if let Err(e) = play_line(root, pv) {
                rep.violation("pv-not-a-legal-line", format!("search of {}: pv {:?}: {}", fen, pv, e), replay.clone());
            }
        }
    }
    let pv_lens: Vec<usize> = out.infos.iter().filter_map(|i| i.pv.as_ref().map(|p| p.len())).collect();
    if pv_lens.len() >= 2 && *pv_lens.last().unwrap() == 1 && pv_lens.iter().any(|l| *l >= 2) { rep.count("searches_whose_final_pv_shrank_to_one_move"); }
    let last_pv = out.infos.iter().rev().find_map(|i| i.pv.clone());
    match last_pv {
        Some(pv) => {
            if out.best.as_ref() != pv.first() {
                rep.violation("bestmove-is-not-first-pv-move", format!("search of {}: bestmove {:?}, last reported pv {:?}", fen, out.best, pv), replay.clone());
            }
            if out.ponder.as_ref() != pv.get(1) {
                rep.violation(&format!("ponder-is-not-second-pv-move:{}", if pv.len() == 1 { "pv-has-one-move" } else { "pv-longer" }), format!("search of {}: ponder {:?}, last reported pv {:?}", fen, out.ponder, pv), replay.clone());
            }
            rep.distinct_hash(monlib::mix(root.key().h64(), monlib::fnv(format!("{:?}", pv).as_bytes())));
        }
        None => {
            rep.count("searches_without_pv");
            if out.best.is_some() || out.ponder.is_some() {
                rep.violation(&format!("move-announced-without-pv:{}", if out.best.is_none() { "ponder-only" } else { "bestmove" }), format!("search of {}: bestmove {:?} ponder {:?} but no principal variation was reported in this search", fen, out.best, out.ponder), replay.clone());
            }
        }
    }
}

/// a whole game-like session on one engine
pub fn play_session(d: &mut dyn Driver, rng: &mut StdRng, starts: &mut gen::Starts, cycles: usize, rep: &mut Report) {
    let use_startpos = rng.gen_bool(0.5);
    let base = if use_startpos { Pos::startpos() } else { loop { let p = starts.next(rng); if !p.legal_moves().is_empty() { break p; } } };
    let fen = if use_startpos { None } else { Some(base.to_fen()) };
    let mut moves: Vec<String> = Vec::new();
    let mut cur = base.clone();
    let mut script_log: Vec<String> = Vec::new();
    let _ = d.send(&Gui::Uci);
    let _ = d.drain(Duration::from_millis(20));
    let mut continuation = 0u64;
    for i in 0..cycles {
        if cur.legal_moves().is_empty() || cur.half >= 95 { break; }
        let mut extra = Vec::new();
        if rng.gen_range(0..6) == 0 { extra.push(Gui::IsReady); }
        if rng.gen_range(0..8) == 0 { extra.push(Gui::Debug(rng.gen_bool(0.5))); }
        let (go, stop) = random_go(rng, &cur, true);
        let c = Cycle { new_game: i == 0 || rng.gen_range(0..15) == 0, position: Some((fen.clone(), moves.clone())), go: go.clone(), stop_after_us: stop, extra, during: during_for(&go, rng), follow_ponder: false, sibling: false, late_stop: false };
        script_log.push(format!("{} | {}", Gui::Position { fen: fen.clone(), moves: moves.clone() }.text(), Gui::Go(c.go.clone()).text()));
        let replay = json!({"kind":"c16-session","script": script_log.iter().rev().take(6).collect::<Vec<_>>()});
        match run_cycle(d, &c) {
            CycleResult::Answered(out) => {
                judge_search(&cur, &out, rep, &replay);
                rep.count(&format!("go_{}", c.go.kind()));
                // play the engine's move, then the opponent's: the ponder move (PV continuation) or another
                let best = match out.best.as_ref().and_then(|b| Mv::from_uci(b)).filter(|m| cur.is_legal(*m)) { Some(m) => m, None => break };
                cur = cur.make(best);
                moves.push(best.uci());
                let replies = cur.legal_moves();
                if replies.is_empty() { break; }
                let ponder = out.ponder.as_ref().and_then(|p| Mv::from_uci(p)).filter(|m| replies.contains(m));
                let reply = match ponder { Some(p) if rng.gen_bool(0.6) => { continuation += 1; p } _ => *replies.choose(rng).unwrap() };
                cur = cur.make(reply);
                moves.push(reply.uci());
            }
            CycleResult::Watchdog => { rep.inconclusive("watchdog fired while the search thread was alive"); return; }
            CycleResult::Dead(e) => { rep.violation("engine-died", format!("{}: {}", script_log.last().cloned().unwrap_or_default(), e), replay); return; }
        }
    }
    rep.add("cycles_where_opponent_played_the_ponder_move", continuation);
    rep.count("sessions");
    let _ = d.send(&Gui::Quit);
}

/// Sessions made of unrelated roots (as in C07: histories with recurring positions, roots that already
/// occurred two or three times, mate / stalemate roots, large move numbers) searched to depth 1-5.
pub fn root_session(d: &mut dyn Driver, rng: &mut StdRng, starts: &mut gen::Starts, cycles: usize, rep: &mut Report) {
    let mut prev_cmd: Option<(Option<String>, Vec<String>)> = None;
    for i in 0..cycles {
        // half of the roots offer an immediate draw by repetition (the engine may switch to it at a
        // deeper iteration: the reported PV then shrinks to one move)
        let (mut cmd, mut root) = random_root_with(rng, starts, 50);
        // sometimes: the previous game again with one earlier move changed (same length, same last move)
        if let Some((pf, pm)) = &prev_cmd {
            if rng.gen_range(0..5) == 0 {
                if let Some(v) = sibling_moves(rng, pf, pm) {
                    if let Some((pos, history)) = position_of(pf, &v) { cmd = (pf.clone(), v); root = Root { pos, history }; rep.count("searches_on_a_sibling_move_list"); }
                }
            }
        }
        prev_cmd = Some(cmd.clone());
        let (mut go, mut stop) = random_go(rng, &root.pos, true);
        if rng.gen_bool(0.6) { go = GoSpec { depth: Some(rng.gen_range(3..=5)), ..Default::default() }; stop = None; }
        let c = Cycle { new_game: i == 0 || rng.gen_range(0..10) == 0, position: Some(cmd.clone()), go: go.clone(), stop_after_us: stop, extra: vec![], during: during_for(&go, rng), follow_ponder: false, sibling: false, late_stop: false };
        let replay = json!({"kind":"c16-session","script":[format!("{} | {}", Gui::Position { fen: cmd.0.clone(), moves: cmd.1.clone() }.text(), Gui::Go(c.go.clone()).text())]});
        match run_cycle(d, &c) {
            CycleResult::Answered(out) => {
                judge_search(&root.pos, &out, rep, &replay);
                rep.count("root_session_searches");
                if root.occurrences_of_root() >= 2 { rep.count("searches_from_roots_that_occurred_before"); }
            }
            CycleResult::Watchdog => { rep.inconclusive("watchdog fired while the search thread was alive"); return; }
            CycleResult::Dead(e) => { rep.violation("engine-died", e, replay); return; }
        }
    }
    let _ = d.send(&Gui::Quit);
}

/// Output-stream stress on the real process: the search thread prints an `info` line at every poll
/// (hooked build, poll interval 50 nodes) while the main thread answers a burst of `isready` / `uci`
/// commands. Every line must still be one intact message and every `isready` answered exactly once.
pub fn output_stress(app_hooked: &str, rng: &mut StdRng, rep: &mut Report) {
    let mut a = match App::spawn(app_hooked, &[("INKAYAKU_VERIF_POLL", "50".to_string())]) { Ok(a) => a, Err(e) => { rep.inconclusive(&format!("app not started: {}", e)); return; } };
    let n_ready = rng.gen_range(800..2000usize);
    let _ = a.send(&Gui::Position { fen: None, moves: vec![] });
    let _ = a.send(&Gui::Go(GoSpec { infinite: true, ..Default::default() }));
    let mut n_uci = 0;
    for i in 0..n_ready {
        let _ = a.send(&Gui::IsReady);
        if i % 97 == 0 { let _ = a.send(&Gui::Uci); n_uci += 1; }
        // spread the burst over ~100-200 ms so that it overlaps thousands of info lines
        if i % 40 == 39 { std::thread::sleep(Duration::from_millis(4)); }
    }
    let _ = a.send(&Gui::Stop);
    let answered = a.await_bestmove(WATCHDOG).is_ok();
    let _ = a.send(&Gui::Quit);
    let code = a.finish(Duration::from_secs(30));
    let _ = a.drain(Duration::from_millis(200));
    rep.count("output_stress_sessions");
    if !answered { rep.inconclusive("output stress: bestmove did not arrive"); return; }
    let mut readyok = 0;
    let mut uciok = 0;
    for (k, line) in a.raw_lines.iter().enumerate() {
        if k == 0 { continue; }
        rep.eval();
        match validate_line(line) {
            Ok(kind) => { rep.count(&format!("stress_lines_{}", kind)); if kind == "readyok" { readyok += 1; } if kind == "uciok" { uciok += 1; } }
            Err(e) => rep.violation(&format!("malformed-output-line-under-concurrent-output:{}", e.split(' ').take(3).collect::<Vec<_>>().join("-")), format!("line {:?}: {}", line, e), json!({"kind":"c16-line","line":line})),
        }
    }
    if readyok != n_ready || uciok != n_uci {
        rep.violation("answers-lost-or-duplicated-under-concurrent-output", format!("{} isready sent, {} readyok lines; {} uci sent, {} uciok lines", n_ready, readyok, n_uci, uciok), json!({"kind":"c16-stress"}));
    }
    if code != Some(0) { rep.violation("app-exit-code", format!("engine process exited with {:?} after the output stress", code), json!({"kind":"c16-stress"})); }
}

pub fn run(args: &monlib::Args, rep: &mut Report) {
    let mut rng = gen::rng(args.seed, args.shard, 16);
    let mut starts = gen::Starts::new(60, 30000, args.shard as usize * 19);
    let n = args.budget(240, 8000) / args.nshards.max(1);
    let app = args.rest.get("app").cloned();
    for i in 0..n {
        let cycles = rng.gen_range(5..=40);
        let via_app = i % 2 == 0 && app.is_some();
        if via_app {
            // every fourth app session runs the hooked build with a short poll interval, so that the
            // periodic `info time .. nodes ..` lines (normally one per 100 000 nodes) are frequent
            let hooked = args.rest.get("app-hooked").cloned().filter(|_| i % 8 == 6);
            let spawned = match &hooked { Some(h) => { rep.count("app_sessions_hooked_poll_1000"); App::spawn(h, &[("INKAYAKU_VERIF_POLL", "1000".to_string())]) } None => App::spawn(app.as_ref().unwrap(), &[]) };
            match spawned {
                Ok(mut a) => {
                    play_session(&mut a, &mut rng, &mut starts, cycles, rep);
                    let code = a.finish(Duration::from_secs(20));
                    let _ = a.drain(Duration::from_millis(20));
                    // syntax of every line the process wrote (first line = banner, free text)
                    for (k, line) in a.raw_lines.iter().enumerate() {
                        if k == 0 { rep.count("banner_lines"); continue; }
                        rep.eval();
                        match validate_line(line) {
                            Ok(kind) => rep.count(&format!("lines_{}", kind)),
                            Err(e) => rep.violation(&format!("malformed-output-line:{}", e.split(' ').take(3).collect::<Vec<_>>().join("-")), format!("line {:?}: {}", line, e), json!({"kind":"c16-line","line":line})),
                        }
                    }
                    rep.count("app_sessions");
                    if code != Some(0) { rep.violation("app-exit-code", format!("engine process exited with {:?}", code), json!({"kind":"c16-session","via":"app"})); }
                    if rep.samples.len() < 4 { rep.sample(json!({"app_output_lines": a.raw_lines.iter().skip(1).take(6).collect::<Vec<_>>()})); }
                }
                Err(e) => rep.inconclusive(&format!("app not started: {}", e)),
            }
        } else {
            let mut s = InProc::new();
            s.record_infos = false;
            if i % 4 == 1 {
                let mut starts7 = gen::Starts::new(3000, 30000, args.shard as usize * 29 + i as usize);
                root_session(&mut s, &mut rng, &mut starts7, cycles.min(12), rep);
            } else {
                play_session(&mut s, &mut rng, &mut starts, cycles, rep);
            }
            rep.count("in_process_sessions");
        }
    }
    // dedicated root sessions (repetition-offering histories, depth 3-5)
    let n_root = args.budget(320, 8000) / args.nshards.max(1);
    for k in 0..n_root {
        let mut s = InProc::new();
        s.record_infos = false;
        let mut starts7 = gen::Starts::new(3000, 30000, args.shard as usize * 31 + k as usize);
        root_session(&mut s, &mut rng, &mut starts7, 12, rep);
    }
    if let Some(h) = args.rest.get("app-hooked") {
        for _ in 0..args.budget(2, 12) { output_stress(h, &mut rng, rep); }
    }
}

pub fn replay(case: &monlib::Value, rep: &mut Report) {
    if let Some(l) = case["line"].as_str() {
        if let Err(e) = validate_line(l) { rep.violation("malformed-output-line", e, case.clone()); }
        return;
    }
    let mut rng = gen::rng(5, 0, 0);
    let mut starts = gen::Starts::new(60, 30000, 0);
    for _ in 0..4 {
        let mut s = InProc::new();
        play_session(&mut s, &mut rng, &mut starts, 20, rep);
    }
}
