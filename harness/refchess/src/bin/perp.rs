use refchess::*;
fn main() {
    let mut rng = gen::rng(3, 0, 0);
    let t = std::time::Instant::now();
    let mut n = 0;
    for _ in 0..50 {
        if let Some((p, c)) = gen::perpetual_position(&mut rng) { n += 1; if n <= 5 { println!("{} {:?}", p.to_fen(), c.iter().map(|m| m.uci()).collect::<Vec<_>>()); } }
    }
    println!("{} found in {:.2}s", n, t.elapsed().as_secs_f64());
}
