use refchess::*;
fn main() {
    let deep = std::env::args().any(|a| a == "--deep");
    let t = std::time::Instant::now();
    let fails = self_test(deep);
    // generators terminate and produce legal positions
    let mut rng = gen::rng(1, 0, 0);
    let mut n = 0;
    for _ in 0..200 {
        for p in [gen::synth_position(&mut rng), gen::check_position(&mut rng), gen::disambiguation_position(&mut rng), gen::mating_material_position(&mut rng)] {
            assert!(p.is_legal_position());
            assert!(Pos::from_fen(&p.to_fen()).unwrap() == p);
            n += 1;
        }
    }
    let s = seeds::seeds();
    println!("refchess self-test: {} failures, {} generated positions ok, {} seeds, {:.2}s", fails.len(), n, s.len(), t.elapsed().as_secs_f64());
    for f in &fails {
        println!("  FAIL {}", f);
    }
    if !fails.is_empty() {
        std::process::exit(2);
    }
}
