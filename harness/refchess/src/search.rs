//! Plain fail-soft alpha-beta negamax with capture/promotion quiescence: the reference search.
//! No transposition table, killers, PV or iterative deepening. Static values come from a closure
//! (the monitors pass the engine's own leaf evaluation through the verif hook).

use crate::*;

pub const MATE: i32 = 1_000_000_000;

#[derive(Clone, Copy, Debug, PartialEq, Eq)]
pub enum Val {
    /// centipawn value from the mover's point of view
    Cp(i32),
    /// mate: plies from the searched root until the mate position; positive = root-relative node's mover wins
    MateIn(i32),
    MatedIn(i32),
}

pub struct Searcher<'a> {
    /// static evaluation of a position from the point of view of the side to move;
    /// second argument: "side to move has legal moves"
    pub eval: &'a mut dyn FnMut(&Pos) -> i32,
    pub nodes: u64,
    pub budget: u64,
    pub exceeded: bool,
}

fn order(p: &Pos, ms: &mut Vec<Mv>) {
    let val = |k: i8| match k.abs() {
        P => 1,
        N => 3,
        B => 3,
        R => 5,
        Q => 9,
        K => 20,
        _ => 0,
    };
    ms.sort_by_key(|m| {
        let victim = if p.is_ep(*m) { 1 } else { val(p.b[m.to as usize]) };
        let promo = val(m.promo);
        -(victim * 16 + promo * 8 - if victim > 0 { val(p.b[m.from as usize]) } else { 0 })
    });
}

impl<'a> Searcher<'a> {
    pub fn new(eval: &'a mut dyn FnMut(&Pos) -> i32, budget: u64) -> Self {
        Searcher { eval, nodes: 0, budget, exceeded: false }
    }

    /// Internal value: centipawns, or ±(MATE - ply_from_root) for mates.
    pub fn negamax(&mut self, p: &Pos, depth: u32, ply: i32, mut alpha: i32, beta: i32) -> i32 {
        self.nodes += 1;
        if self.nodes > self.budget {
            self.exceeded = true;
            return 0;
        }
        let mut ms = p.legal_moves();
        if ms.is_empty() {
            return if p.in_check(p.wtm) { -(MATE - ply) } else { 0 };
        }
        if depth == 0 {
            // the engine enters quiescence when some *pseudo-legal* capture or promotion exists
            let any_noisy = p.pseudo_moves().iter().any(|m| p.is_capture(*m) || m.promo != 0);
            if any_noisy {
                return self.quiesce(p, alpha, beta);
            }
            return (self.eval)(p);
        }
        order(p, &mut ms);
        let mut best = -MATE - 1;
        for m in ms {
            let v = -self.negamax(&p.make(m), depth - 1, ply + 1, -beta, -alpha);
            if self.exceeded {
                return 0;
            }
            if v > best {
                best = v;
            }
            if best > alpha {
                alpha = best;
            }
            if alpha >= beta {
                break;
            }
        }
        best
    }

    /// Capture/promotion resolution with stand-pat (also when in check — the engine's convention).
    pub fn quiesce(&mut self, p: &Pos, mut alpha: i32, beta: i32) -> i32 {
        self.nodes += 1;
        if self.nodes > self.budget {
            self.exceeded = true;
            return 0;
        }
        let stand = (self.eval)(p);
        if stand >= beta {
            return stand;
        }
        let mut best = stand;
        if best > alpha {
            alpha = best;
        }
        let mut ms: Vec<Mv> = p.legal_moves().into_iter().filter(|m| p.is_capture(*m) || m.promo != 0).collect();
        order(p, &mut ms);
        for m in ms {
            let v = -self.quiesce(&p.make(m), -beta, -alpha);
            if self.exceeded {
                return 0;
            }
            if v > best {
                best = v;
            }
            if best > alpha {
                alpha = best;
            }
            if alpha >= beta {
                break;
            }
        }
        best
    }

    pub fn root(&mut self, p: &Pos, depth: u32) -> Option<Val> {
        let v = self.negamax(p, depth, 0, -MATE - 1, MATE + 1);
        if self.exceeded {
            return None;
        }
        Some(to_val(v))
    }
}

pub fn to_val(v: i32) -> Val {
    if v > MATE - 1000 {
        Val::MateIn(MATE - v)
    } else if v < -(MATE - 1000) {
        Val::MatedIn(MATE + v)
    } else {
        Val::Cp(v)
    }
}

/// Pure rules question (no evaluation): can the side to move force mate within `plies` plies
/// (odd)? Returns the minimal number of plies if so.
pub fn forced_mate_plies(p: &Pos, max_plies: u32) -> Option<u32> {
    let mut d = 1;
    while d <= max_plies {
        if attacker_wins(p, d) {
            return Some(d);
        }
        d += 2;
    }
    None
}

fn attacker_wins(p: &Pos, plies: u32) -> bool {
    // side to move must mate within `plies` plies (plies odd)
    for m in p.legal_moves() {
        let n = p.make(m);
        let replies = n.legal_moves();
        if replies.is_empty() {
            if n.in_check(n.wtm) {
                return true;
            }
            continue;
        }
        if plies < 3 {
            continue;
        }
        if replies.iter().all(|r| attacker_wins(&n.make(*r), plies - 2)) {
            return true;
        }
    }
    false
}

/// After the defender's position `p` (defender to move), is the defender mated within `plies`
/// plies (even) against every defence?
pub fn defender_lost_within(p: &Pos, plies: u32) -> bool {
    let replies = p.legal_moves();
    if replies.is_empty() {
        return p.in_check(p.wtm);
    }
    if plies < 2 {
        return false;
    }
    replies.iter().all(|r| attacker_wins(&p.make(*r), plies - 1))
}
