//! Workload generators shared by the monitors. All move choices are made by the reference model.

use rand::rngs::StdRng;
use rand::seq::SliceRandom;
use rand::{Rng, SeedableRng};

use crate::*;

pub fn rng(seed: u64, shard: u64, stream: u64) -> StdRng {
    StdRng::seed_from_u64(seed ^ shard.wrapping_mul(0x9E3779B97F4A7C15) ^ stream.wrapping_mul(0xD1B54A32D192ED03))
}

#[derive(Clone, Copy, Debug, PartialEq, Eq)]
pub enum Policy {
    Uniform,
    Shuffle,
    Tactical,
}

pub const POLICIES: [Policy; 3] = [Policy::Uniform, Policy::Shuffle, Policy::Tactical];

pub fn choose(rng: &mut StdRng, p: &Pos, legal: &[Mv], policy: Policy) -> Mv {
    assert!(!legal.is_empty());
    if policy == Policy::Uniform || rng.gen_bool(0.15) {
        return *legal.choose(rng).unwrap();
    }
    let weight = |m: &Mv| -> u32 {
        let pc = p.b[m.from as usize].abs();
        let cap = p.is_capture(*m);
        match policy {
            Policy::Shuffle => {
                if pc != P && !cap {
                    if pc == K && p.is_castle(*m) { 2 } else { 40 }
                } else {
                    1
                }
            }
            Policy::Tactical => {
                let mut w = 2;
                if cap { w += 30; }
                if m.promo != 0 { w += 40; }
                if p.is_castle(*m) { w += 60; }
                if p.is_ep(*m) { w += 200; }
                if pc == P && (rank_of(m.from) - rank_of(m.to)).abs() == 2 {
                    // double push next to an enemy pawn creates e.p. chances
                    let r = rank_of(m.to);
                    let enemy = if p.wtm { -P } else { P };
                    for df in [-1, 1] {
                        let f = file_of(m.to) + df;
                        if (0..8).contains(&f) && p.at(f, r) == enemy { w += 120; }
                    }
                    w += 6;
                }
                if pc == P { w += 4; }
                let n = p.make(*m);
                if n.in_check(n.wtm) { w += 40; }
                w
            }
            Policy::Uniform => 1,
        }
    };
    let ws: Vec<u32> = legal.iter().map(weight).collect();
    let total: u32 = ws.iter().sum();
    let mut x = rng.gen_range(0..total);
    for (i, w) in ws.iter().enumerate() {
        if x < *w {
            return legal[i];
        }
        x -= w;
    }
    legal[0]
}

/// largest half-move clock inside the domain of the make/unmake properties (C03: 0..4095)
pub const MAX_HALF_CLOCK: u32 = 4095;

pub const HALF_CLOCKS: [u32; 14] = [0, 1, 49, 50, 98, 99, 100, 127, 128, 129, 255, 256, 1000, 4095];
pub const FULL_CLOCKS: [u32; 12] = [1, 2, 100, 2499, 2500, 2501, 30000, 32767, 32768, 65535, 65536, 999_000];

/// Replace the clocks of `p` by interesting values. `max_half` bounds the half-move clock.
pub fn with_clocks(rng: &mut StdRng, p: &Pos, max_half: u32, max_full: u32) -> Pos {
    let mut n = p.clone();
    let h = match rng.gen_range(0..10) {
        0..=3 => p.half,
        4..=7 => *HALF_CLOCKS.choose(rng).unwrap(),
        _ => rng.gen_range(0..=max_half.max(1)),
    };
    n.half = if n.ep.is_some() { 0 } else { h.min(max_half) };
    let f = match rng.gen_range(0..10) {
        0..=3 => p.full,
        4..=7 => *FULL_CLOCKS.choose(rng).unwrap(),
        _ => rng.gen_range(1..=max_full.max(1)),
    };
    n.full = f.clamp(1, max_full.max(1));
    n
}

/// Random placement of random material followed by the legality filter.
pub fn synth_position(rng: &mut StdRng) -> Pos {
    loop {
        let mut p = Pos { b: [0; 64], wtm: rng.gen_bool(0.5), castle: [false; 4], ep: None, half: 0, full: 1 };
        let castle_setup = rng.gen_bool(0.3);
        let mut free: Vec<u8> = (0..64).collect();
        free.shuffle(rng);
        let place = |p: &mut Pos, pc: i8, free: &mut Vec<u8>| -> bool {
            while let Some(s) = free.pop() {
                if p.b[s as usize] != 0 {
                    continue;
                }
                if pc.abs() == P && (rank_of(s) == 0 || rank_of(s) == 7) {
                    continue;
                }
                p.b[s as usize] = pc;
                return true;
            }
            false
        };
        if castle_setup {
            if rng.gen_bool(0.8) {
                p.b[4] = K;
                if rng.gen_bool(0.7) { p.b[7] = R; p.castle[WK] = rng.gen_bool(0.8); }
                if rng.gen_bool(0.7) { p.b[0] = R; p.castle[WQ] = rng.gen_bool(0.8); }
            } else {
                place(&mut p, K, &mut free);
            }
            if rng.gen_bool(0.8) {
                p.b[60] = -K;
                if rng.gen_bool(0.7) { p.b[63] = -R; p.castle[BK] = rng.gen_bool(0.8); }
                if rng.gen_bool(0.7) { p.b[56] = -R; p.castle[BQ] = rng.gen_bool(0.8); }
            } else {
                place(&mut p, -K, &mut free);
            }
        } else {
            place(&mut p, K, &mut free);
            place(&mut p, -K, &mut free);
        }
        let style = rng.gen_range(0..6);
        for sign in [1i8, -1] {
            let (np, nn, nb, nr, nq) = match style {
                0 => (rng.gen_range(0..=8), rng.gen_range(0..=2), rng.gen_range(0..=2), rng.gen_range(0..=2), rng.gen_range(0..=1)),
                1 => (0, rng.gen_range(0..=2), rng.gen_range(0..=2), rng.gen_range(0..=2), rng.gen_range(0..=3)),
                2 => (rng.gen_range(0..=3), 0, 0, rng.gen_range(0..=1), rng.gen_range(0..=1)),
                3 => (rng.gen_range(0..=4), rng.gen_range(0..=4), rng.gen_range(0..=1), rng.gen_range(0..=3), rng.gen_range(0..=2)),
                4 => (0, 0, 0, 0, if sign == 1 { rng.gen_range(0..=9) } else { rng.gen_range(0..=1) }),
                _ => (rng.gen_range(0..=8), rng.gen_range(0..=1), rng.gen_range(0..=1), rng.gen_range(0..=1), 0),
            };
            for (k, n) in [(P, np), (N, nn), (B, nb), (R, nr), (Q, nq)] {
                for _ in 0..n {
                    place(&mut p, sign * k, &mut free);
                }
            }
        }
        // sometimes an en-passant state
        if rng.gen_bool(0.25) {
            let f = rng.gen_range(0..8);
            if p.wtm {
                if p.at(f, 4) == 0 && p.at(f, 5) == 0 && p.at(f, 6) == 0 {
                    p.b[sq(f, 4) as usize] = -P;
                    p.ep = Some(sq(f, 5));
                    let nf = f + if rng.gen_bool(0.5) { 1 } else { -1 };
                    if (0..8).contains(&nf) && p.at(nf, 4) == 0 && rng.gen_bool(0.8) {
                        p.b[sq(nf, 4) as usize] = P;
                    }
                }
            } else if p.at(f, 3) == 0 && p.at(f, 2) == 0 && p.at(f, 1) == 0 {
                p.b[sq(f, 3) as usize] = P;
                p.ep = Some(sq(f, 2));
                let nf = f + if rng.gen_bool(0.5) { 1 } else { -1 };
                if (0..8).contains(&nf) && p.at(nf, 3) == 0 && rng.gen_bool(0.8) {
                    p.b[sq(nf, 3) as usize] = -P;
                }
            }
        }
        if p.is_legal_position() {
            return p;
        }
    }
}

/// Castling under pressure: the side to move has its king and at least one rook at home with the
/// right, the path mostly empty, and enemy pieces — in a third of the cases the enemy KING — near
/// or aimed at the squares the king starts on, crosses and lands on.
pub fn castle_zone_position(rng: &mut StdRng) -> Pos {
    loop {
        let white = rng.gen_bool(0.5);
        let mut p = Pos { b: [0; 64], wtm: white, castle: [false; 4], ep: None, half: rng.gen_range(0..40), full: rng.gen_range(1..120) };
        let (r, sg): (i32, i8) = if white { (0, 1) } else { (7, -1) };
        p.b[sq(4, r) as usize] = sg * K;
        let wings = rng.gen_range(1..=3);
        if wings & 1 != 0 { p.b[sq(7, r) as usize] = sg * R; p.castle[if white { WK } else { BK }] = true; }
        if wings & 2 != 0 { p.b[sq(0, r) as usize] = sg * R; p.castle[if white { WQ } else { BQ }] = true; }
        // squares of interest: b..g on the home rank
        let targets: Vec<u8> = (1..=6).map(|f| sq(f, r)).collect();
        // enemy king: near the path (but never next to our king) or anywhere
        let mut placed = false;
        for _ in 0..60 {
            let s = if rng.gen_range(0..3) != 0 {
                let t = *targets.choose(rng).unwrap();
                let f = file_of(t) + rng.gen_range(-2..=2);
                let rr = rank_of(t) + if white { rng.gen_range(1..=2) } else { -rng.gen_range(1..=2) };
                if !(0..8).contains(&f) || !(0..8).contains(&rr) { continue; }
                sq(f, rr)
            } else { rng.gen_range(0..64u8) };
            if p.b[s as usize] == 0 && ((file_of(s) - 4).abs() > 1 || (rank_of(s) - r).abs() > 1) {
                p.b[s as usize] = -sg * K;
                placed = true;
                break;
            }
        }
        if !placed { continue; }
        // enemy pieces aimed at a path square
        for _ in 0..rng.gen_range(0..=3) {
            let kind = *[P, N, B, R, Q].choose(rng).unwrap();
            let t = *targets.choose(rng).unwrap();
            let mut cands: Vec<u8> = Vec::new();
            for s in 0..64u8 {
                if p.b[s as usize] != 0 || rank_of(s) == r { continue; }
                if kind == P && (rank_of(s) == 0 || rank_of(s) == 7) { continue; }
                let mut tt = p.clone();
                tt.b = [0; 64];
                tt.b[s as usize] = -sg * kind;
                if tt.piece_attacks(s, t) { cands.push(s); }
            }
            if let Some(&s) = cands.choose(rng) { p.b[s as usize] = -sg * kind; }
        }
        // a few bystanders of either colour, sometimes on the path itself
        for _ in 0..rng.gen_range(0..4) {
            let s = if rng.gen_range(0..5) == 0 { *targets.choose(rng).unwrap() } else { rng.gen_range(0..64u8) };
            let kind = *[P, N, B, R, Q].choose(rng).unwrap();
            let c: i8 = if rng.gen_bool(0.5) { 1 } else { -1 };
            if p.b[s as usize] == 0 && !(kind == P && (rank_of(s) == 0 || rank_of(s) == 7)) {
                p.b[s as usize] = c * kind;
            }
        }
        if p.is_legal_position() {
            return p;
        }
    }
}

/// King plus 1..3 attackers of chosen kinds at every direction/distance — for check detection.
pub fn check_position(rng: &mut StdRng) -> Pos {
    loop {
        let mut p = Pos { b: [0; 64], wtm: rng.gen_bool(0.5), castle: [false; 4], ep: None, half: 0, full: 1 };
        let ks = rng.gen_range(0..64u8);
        let victim_white = p.wtm;
        p.b[ks as usize] = if victim_white { K } else { -K };
        let sign: i8 = if victim_white { -1 } else { 1 };
        let mut ok = true;
        // enemy king somewhere not adjacent
        let mut tries = 0;
        loop {
            let s = rng.gen_range(0..64u8);
            tries += 1;
            if tries > 100 { ok = false; break; }
            if p.b[s as usize] == 0 && ((file_of(s) - file_of(ks)).abs() > 1 || (rank_of(s) - rank_of(ks)).abs() > 1) {
                p.b[s as usize] = sign * K;
                break;
            }
        }
        if !ok { continue; }
        let n_att = rng.gen_range(1..=3);
        for _ in 0..n_att {
            let kind = *[P, N, B, R, Q].choose(rng).unwrap();
            // choose a square from which this kind would attack the king on an empty board (mostly)
            let mut cands: Vec<u8> = Vec::new();
            for s in 0..64u8 {
                if p.b[s as usize] != 0 { continue; }
                if kind == P && (rank_of(s) == 0 || rank_of(s) == 7) { continue; }
                let mut t = p.clone();
                t.b = [0; 64];
                t.b[s as usize] = sign * kind;
                if t.piece_attacks(s, ks) { cands.push(s); }
            }
            let s = if !cands.is_empty() && rng.gen_bool(0.8) { *cands.choose(rng).unwrap() } else { rng.gen_range(0..64u8) };
            if p.b[s as usize] == 0 && !(kind == P && (rank_of(s) == 0 || rank_of(s) == 7)) {
                p.b[s as usize] = sign * kind;
            }
        }
        // blockers of either colour
        for _ in 0..rng.gen_range(0..4) {
            let s = rng.gen_range(0..64u8);
            let kind = *[P, N, B, R, Q].choose(rng).unwrap();
            let sg: i8 = if rng.gen_bool(0.5) { 1 } else { -1 };
            if p.b[s as usize] == 0 && !(kind == P && (rank_of(s) == 0 || rank_of(s) == 7)) {
                p.b[s as usize] = sg * kind;
            }
        }
        if p.is_legal_position() {
            return p;
        }
    }
}

/// 2..4 like pieces placed so that several of them attack one square — for SAN disambiguation.
pub fn disambiguation_position(rng: &mut StdRng) -> Pos {
    loop {
        let mut p = Pos { b: [0; 64], wtm: rng.gen_bool(0.5), castle: [false; 4], ep: None, half: 0, full: 1 };
        let sign: i8 = if p.wtm { 1 } else { -1 };
        let kind = *[N, B, R, Q, Q, N].choose(rng).unwrap();
        let target = rng.gen_range(0..64u8);
        if rng.gen_bool(0.3) {
            p.b[target as usize] = -sign * *[P, N, B, R, Q].choose(rng).unwrap();
            if p.b[target as usize].abs() == P && (rank_of(target) == 0 || rank_of(target) == 7) { continue; }
        }
        let mut cands: Vec<u8> = Vec::new();
        for s in 0..64u8 {
            if s == target { continue; }
            let mut t = Pos { b: [0; 64], ..p.clone() };
            t.b[s as usize] = sign * kind;
            if t.piece_attacks(s, target) { cands.push(s); }
        }
        cands.shuffle(rng);
        let n = rng.gen_range(2..=4).min(cands.len());
        // bias: same file / same rank pairs
        if rng.gen_bool(0.5) {
            let first = cands[0];
            cands.sort_by_key(|&s| {
                if s == first { 0 } else if file_of(s) == file_of(first) || rank_of(s) == rank_of(first) { 1 } else { 2 }
            });
        }
        for &s in cands.iter().take(n) {
            if p.b[s as usize] == 0 { p.b[s as usize] = sign * kind; }
        }
        // kings
        let mut placed = 0;
        for ksign in [1i8, -1] {
            for _ in 0..200 {
                let s = rng.gen_range(0..64u8);
                if p.b[s as usize] == 0 && s != target {
                    p.b[s as usize] = ksign * K;
                    placed += 1;
                    break;
                }
            }
        }
        if placed != 2 { continue; }
        // a few extra pieces (possible pinners)
        for _ in 0..rng.gen_range(0..4) {
            let s = rng.gen_range(0..64u8);
            let k = *[B, R, Q, N].choose(rng).unwrap();
            if p.b[s as usize] == 0 && s != target { p.b[s as usize] = -sign * k; }
        }
        if p.is_legal_position() && !p.legal_moves().is_empty() {
            return p;
        }
    }
}

/// Low-material positions where forced mates are common (for C08/C11 mate clauses).
pub fn mating_material_position(rng: &mut StdRng) -> Pos {
    loop {
        let mut p = Pos { b: [0; 64], wtm: rng.gen_bool(0.5), castle: [false; 4], ep: None, half: rng.gen_range(0..30), full: rng.gen_range(1..200) };
        let strong_white = rng.gen_bool(0.5);
        let s: i8 = if strong_white { 1 } else { -1 };
        let mats: [&[i8]; 7] = [&[Q], &[R], &[R, R], &[Q, R], &[B, B], &[Q, N], &[R, B]];
        let mat = mats.choose(rng).unwrap();
        // weak king near an edge/corner most of the time
        let edge = rng.gen_bool(0.85);
        let wk_sq = loop {
            let c = rng.gen_range(0..64u8);
            if !edge || file_of(c) == 0 || file_of(c) == 7 || rank_of(c) == 0 || rank_of(c) == 7 { break c; }
        };
        p.b[wk_sq as usize] = -s * K;
        // strong king within distance 2..3
        let mut done = false;
        for _ in 0..100 {
            let c = rng.gen_range(0..64u8);
            let d = (file_of(c) - file_of(wk_sq)).abs().max((rank_of(c) - rank_of(wk_sq)).abs());
            if p.b[c as usize] == 0 && d >= 2 && (d <= 3 || rng.gen_bool(0.1)) {
                p.b[c as usize] = s * K;
                done = true;
                break;
            }
        }
        if !done { continue; }
        for &k in mat.iter() {
            for _ in 0..100 {
                let c = rng.gen_range(0..64u8);
                if p.b[c as usize] == 0 { p.b[c as usize] = s * k; break; }
            }
        }
        if rng.gen_bool(0.3) {
            let k = *[N, B, P].choose(rng).unwrap();
            let c = rng.gen_range(8..56u8);
            if p.b[c as usize] == 0 { p.b[c as usize] = -s * k; }
        }
        if p.is_legal_position() && !p.legal_moves().is_empty() {
            return p;
        }
    }
}

/// A random legal game: returns the visited positions and the moves between them.
pub fn walk(rng: &mut StdRng, start: &Pos, policy: Policy, max_plies: usize) -> (Vec<Pos>, Vec<Mv>) {
    let mut ps = vec![start.clone()];
    let mut ms = Vec::new();
    let mut cur = start.clone();
    for _ in 0..max_plies {
        let legal = cur.legal_moves();
        if legal.is_empty() {
            break;
        }
        let m = choose(rng, &cur, &legal, policy);
        let next = cur.make(m);
        // the properties' domain for make/unmake is a half-move clock of 0..=4095
        if next.half > MAX_HALF_CLOCK {
            break;
        }
        cur = next;
        ms.push(m);
        ps.push(cur.clone());
    }
    (ps, ms)
}

/// Source of start positions for the walkers: seeds (and flipped twins), synthesised positions,
/// all with clock variants.
pub struct Starts {
    seeds: Vec<Pos>,
    next: usize,
    pub max_half: u32,
    pub max_full: u32,
}

impl Starts {
    pub fn new(max_half: u32, max_full: u32, offset: usize) -> Starts {
        Starts { seeds: crate::seeds::seeds(), next: offset, max_half, max_full }
    }
    pub fn n_seeds(&self) -> usize {
        self.seeds.len()
    }
    pub fn next(&mut self, rng: &mut StdRng) -> Pos {
        let roll = rng.gen_range(0..10);
        let base = if roll < 6 {
            let p = self.seeds[self.next % self.seeds.len()].clone();
            self.next += 1;
            p
        } else if roll < 9 {
            synth_position(rng)
        } else {
            check_position(rng)
        };
        with_clocks(rng, &base, self.max_half, self.max_full)
    }
}

/// A materially lost side to move that has a forced four-ply perpetual-check cycle
/// (check, single legal reply, check, single legal reply, back to the same position).
/// Returns the position and the cycle.
pub fn perpetual_position(rng: &mut StdRng) -> Option<(Pos, [Mv; 4])> {
    for _ in 0..20000 {
        let weak_white = rng.gen_bool(0.5);
        let s: i8 = if weak_white { 1 } else { -1 };
        let mut p = Pos { b: [0; 64], wtm: weak_white, castle: [false; 4], ep: None, half: rng.gen_range(0..20), full: rng.gen_range(1..300) };
        // strong king near a corner, boxed in by its own men
        let corner_f = if rng.gen_bool(0.5) { 0 } else { 7 };
        let corner_r = if rng.gen_bool(0.5) { 0 } else { 7 };
        let kf = (corner_f as i32 + if corner_f == 0 { rng.gen_range(0..2) } else { -rng.gen_range(0..2) }) as i32;
        let kr = (corner_r as i32 + if corner_r == 0 { rng.gen_range(0..2) } else { -rng.gen_range(0..2) }) as i32;
        p.b[sq(kf, kr) as usize] = -s * K;
        let put = |p: &mut Pos, pc: i8, rng: &mut StdRng, near: Option<(i32, i32)>| {
            for _ in 0..60 {
                let (f, r) = match near { Some((nf, nr)) => (nf + rng.gen_range(-2..=2), nr + rng.gen_range(-2..=2)), None => (rng.gen_range(0..8), rng.gen_range(0..8)) };
                if !(0..8).contains(&f) || !(0..8).contains(&r) { continue; }
                if pc.abs() == P && (r == 0 || r == 7) { continue; }
                if p.b[sq(f, r) as usize] == 0 { p.b[sq(f, r) as usize] = pc; return; }
            }
        };
        for _ in 0..rng.gen_range(1..4) { put(&mut p, -s * P, rng, Some((kf, kr))); }
        for k in [Q, R, R, N, B].iter().take(rng.gen_range(2..=5)) { let near = if rng.gen_bool(0.3) { Some((kf, kr)) } else { None }; put(&mut p, -s * k, rng, near); }
        put(&mut p, s * K, rng, None);
        put(&mut p, s * Q, rng, Some((kf, kr)));
        if rng.gen_bool(0.3) { let k = *[N, B, R].choose(rng).unwrap(); put(&mut p, s * k, rng, Some((kf, kr))); }
        if !p.is_legal_position() || p.in_check(p.wtm) { continue; }
        for a in p.legal_moves() {
            let pa = p.make(a);
            if !pa.in_check(pa.wtm) { continue; }
            let ra = pa.legal_moves();
            if ra.len() != 1 || pa.is_capture(ra[0]) { continue; }
            let pb = pa.make(ra[0]);
            for a2 in pb.legal_moves() {
                let pa2 = pb.make(a2);
                if !pa2.in_check(pa2.wtm) || pb.is_capture(a2) { continue; }
                let r2 = pa2.legal_moves();
                if r2.len() != 1 || pa2.is_capture(r2[0]) { continue; }
                let back = pa2.make(r2[0]);
                if back.key() == p.key() && !p.is_capture(a) {
                    return Some((p, [a, ra[0], a2, r2[0]]));
                }
            }
        }
    }
    None
}
