//! Strict FEN reader/writer of the reference model.

use crate::*;

#[derive(Debug, Clone)]
pub enum FenClass {
    /// Grammatically valid, canonical-form FEN; decoded.
    Valid(Box<Pos>),
    /// Breaks the FEN grammar in one of the ways the property lists; must be rejected.
    Invalid(String),
    /// Status not defined by the property (non-canonical castling order, e.p. rank other than 3/6,
    /// leading zeros, clocks wider than u32, full-move 0, odd white space ...): only "must not panic".
    Unspecified(String),
}

pub fn piece_char(p: i8) -> char {
    let c = match p.abs() {
        P => 'p',
        N => 'n',
        B => 'b',
        R => 'r',
        Q => 'q',
        K => 'k',
        _ => '?',
    };
    if p > 0 {
        c.to_ascii_uppercase()
    } else {
        c
    }
}

pub fn piece_from_char(c: char) -> Option<i8> {
    let k = match c.to_ascii_lowercase() {
        'p' => P,
        'n' => N,
        'b' => B,
        'r' => R,
        'q' => Q,
        'k' => K,
        _ => return None,
    };
    if !c.is_ascii() {
        return None;
    }
    Some(if c.is_ascii_uppercase() { k } else { -k })
}

pub fn write(p: &Pos) -> String {
    let mut s = String::new();
    for r in (0..8).rev() {
        let mut empty = 0;
        for f in 0..8 {
            let x = p.at(f, r);
            if x == 0 {
                empty += 1;
            } else {
                if empty > 0 {
                    s.push_str(&empty.to_string());
                    empty = 0;
                }
                s.push(piece_char(x));
            }
        }
        if empty > 0 {
            s.push_str(&empty.to_string());
        }
        if r > 0 {
            s.push('/');
        }
    }
    s.push(' ');
    s.push(if p.wtm { 'w' } else { 'b' });
    s.push(' ');
    let mut c = String::new();
    for (i, ch) in ['K', 'Q', 'k', 'q'].iter().enumerate() {
        if p.castle[i] {
            c.push(*ch);
        }
    }
    if c.is_empty() {
        c.push('-');
    }
    s.push_str(&c);
    s.push(' ');
    match p.ep {
        Some(e) => s.push_str(&sq_name(e)),
        None => s.push('-'),
    }
    s.push_str(&format!(" {} {}", p.half, p.full));
    s
}

/// The first four fields only.
pub fn write4(p: &Pos) -> String {
    let f = write(p);
    f.split(' ').take(4).collect::<Vec<_>>().join(" ")
}

enum Clock {
    Ok(u32),
    Invalid(String),
    Unspec(String),
}

fn clock(s: &str, what: &str) -> Clock {
    if s.is_empty() {
        return Clock::Unspec(format!("empty {}", what));
    }
    if s.bytes().all(|b| b.is_ascii_digit()) {
        if s.len() > 1 && s.starts_with('0') {
            return Clock::Unspec(format!("{} with leading zero", what));
        }
        return match s.parse::<u32>() {
            Ok(v) => Clock::Ok(v),
            Err(_) => Clock::Unspec(format!("{} wider than u32", what)),
        };
    }
    // anything but ASCII digits is an illegal character of the field (a sign, a letter, a digit of
    // another script)
    Clock::Invalid(format!("{} has a character that is not an ASCII digit", what))
}

pub fn classify(s: &str) -> FenClass {
    use FenClass::*;
    // the grammar separates fields by one blank; any other white space or a control character is an
    // illegal character wherever it stands
    if s.chars().any(|c| c != ' ' && c.is_whitespace()) || s.chars().any(|c| c.is_control()) {
        return Invalid("white space other than the blank, or a control character".into());
    }
    let fields: Vec<&str> = s.split(' ').collect();
    if fields.iter().any(|f| f.is_empty()) {
        if s.trim().is_empty() {
            return Invalid("empty".into());
        }
        return Unspecified("empty field (double, leading or trailing space)".into());
    }
    if fields.len() != 4 && fields.len() != 6 {
        return Invalid(format!("field count {}", fields.len()));
    }
    // placement
    let ranks: Vec<&str> = fields[0].split('/').collect();
    if ranks.len() != 8 {
        return Invalid(format!("{} ranks", ranks.len()));
    }
    let mut b = [0i8; 64];
    for (i, rk) in ranks.iter().enumerate() {
        let r = 7 - i as i32;
        let mut f = 0i32;
        let mut prev_digit = false;
        if rk.is_empty() {
            return Invalid("empty rank".into());
        }
        for c in rk.chars() {
            if ('1'..='8').contains(&c) {
                if prev_digit {
                    return Invalid(format!("adjacent digits in rank {}", rk));
                }
                prev_digit = true;
                f += c as i32 - '0' as i32;
            } else if let Some(p) = piece_from_char(c) {
                prev_digit = false;
                if f < 8 {
                    b[sq(f, r) as usize] = p;
                }
                f += 1;
            } else {
                return Invalid(format!("illegal character {:?} in placement", c));
            }
        }
        if f != 8 {
            return Invalid(format!("rank {} sums to {}", rk, f));
        }
    }
    let wtm = match fields[1] {
        "w" => true,
        "b" => false,
        o => return Invalid(format!("bad side {:?}", o)),
    };
    let mut castle = [false; 4];
    let cf = fields[2];
    if cf != "-" {
        if !cf.chars().all(|c| "KQkq".contains(c)) {
            return Invalid(format!("bad castling field {:?}", cf));
        }
        let canonical: String = "KQkq".chars().filter(|c| cf.contains(*c)).collect();
        if canonical != cf {
            return Unspecified("castling field not in canonical order / duplicated letters".into());
        }
        for (i, ch) in ['K', 'Q', 'k', 'q'].iter().enumerate() {
            castle[i] = cf.contains(*ch);
        }
    }
    let ef = fields[3];
    let ep = if ef == "-" {
        None
    } else {
        match sq_from_name(ef) {
            None => return Invalid(format!("bad en-passant field {:?}", ef)),
            Some(e) => {
                if rank_of(e) != 2 && rank_of(e) != 5 {
                    return Unspecified("en-passant square not on rank 3/6".into());
                }
                Some(e)
            }
        }
    };
    let (half, full) = if fields.len() == 6 {
        let h = match clock(fields[4], "half-move clock") {
            Clock::Ok(v) => v,
            Clock::Invalid(w) => return Invalid(w),
            Clock::Unspec(w) => return Unspecified(w),
        };
        let f = match clock(fields[5], "full-move number") {
            Clock::Ok(v) => v,
            Clock::Invalid(w) => return Invalid(w),
            Clock::Unspec(w) => return Unspecified(w),
        };
        if f == 0 {
            return Unspecified("full-move number 0".into());
        }
        (h, f)
    } else {
        (0, 1)
    };
    Valid(Box::new(Pos { b, wtm, castle, ep, half, full }))
}

pub fn self_test() -> Vec<String> {
    let mut fails = Vec::new();
    // hand-decoded board
    let p = match classify("r3k2r/8/8/3pP3/8/8/8/R3K2R w Kq d6 7 42") {
        FenClass::Valid(p) => *p,
        o => {
            fails.push(format!("fen self-test: {:?}", o));
            return fails;
        }
    };
    let exp = [(0, 7, -R), (4, 7, -K), (7, 7, -R), (3, 4, -P), (4, 4, P), (0, 0, R), (4, 0, K), (7, 0, R)];
    let mut cnt = 0;
    for (f, r, pc) in exp {
        if p.at(f, r) != pc {
            fails.push(format!("fen self-test: square {} {}", f, r));
        }
        cnt += 1;
    }
    if (0..64).filter(|&s| p.b[s] != 0).count() != cnt {
        fails.push("fen self-test: piece count".into());
    }
    if !p.wtm || p.castle != [true, false, false, true] || p.ep != Some(sq(3, 5)) || p.half != 7 || p.full != 42 {
        fails.push("fen self-test: state fields".into());
    }
    for (s, want_invalid) in [
        ("rnbqkbnr/pppppppp/8/8/8/8/PPPPPPPP/RNBQKBNR w KQkq - 0", true),
        ("rnbqkbnr/pppppppp/8/8/8/8/PPPPPPPP/RNBQKBN w KQkq - 0 1", true),
        ("rnbqkbnr/pppppppp/44/8/8/8/PPPPPPPP/RNBQKBNR w KQkq - 0 1", true),
        ("rnbqkbnr/pppppppp/8/8/8/8/PPPPPPPP/RNBQKBNR x KQkq - 0 1", true),
        ("rnbqkbnr/pppppppp/8/8/8/8/PPPPPPPP/RNBQKBNR w KQxq - 0 1", true),
        ("rnbqkbnr/pppppppp/8/8/8/8/PPPPPPPP/RNBQKBNR w KQkq e9 0 1", true),
        ("rnbqkbnr/pppppppp/8/8/8/8/PPPPPPPP/RNBQKBNR w KQkq - 0 1", false),
        ("rnbqkbnr/pppppppp/8/8/8/8/PPPPPPPP/RNBQKBNR w KQkq -", false),
    ] {
        let inv = matches!(classify(s), FenClass::Invalid(_));
        if inv != want_invalid {
            fails.push(format!("fen self-test: classify({}) invalid={}", s, inv));
        }
    }
    fails
}
