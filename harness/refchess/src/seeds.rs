//! Seed positions aimed at the situations the properties name. Each is also used colour-flipped.

use crate::Pos;

pub const SEED_FENS: &[&str] = &[
    // start position and the classical perft roots
    "rnbqkbnr/pppppppp/8/8/8/8/PPPPPPPP/RNBQKBNR w KQkq - 0 1",
    "r3k2r/p1ppqpb1/bn2pnp1/3PN3/1p2P3/2N2Q1p/PPPBBPPP/R3K2R w KQkq - 0 1",
    "8/2p5/3p4/KP5r/1R3p1k/8/4P1P1/8 w - - 0 1",
    "r3k2r/Pppp1ppp/1b3nbN/nP6/BBP1P3/q4N2/Pp1P2PP/R2Q1RK1 w kq - 0 1",
    "rnbq1k1r/pp1Pbppp/2p5/8/2B5/8/PPP1NnPP/RNBQK2R w KQ - 1 8",
    "r4rk1/1pp1qppp/p1np1n2/2b1p1B1/2B1P1b1/P1NP1N2/1PP1QPPP/R4RK1 w - - 0 10",
    // castling: all rights, open board
    "r3k2r/8/8/8/8/8/8/R3K2R w KQkq - 0 1",
    "r3k2r/8/8/8/8/8/8/R3K2R b KQkq - 0 1",
    "r3k2r/pppppppp/8/8/8/8/PPPPPPPP/R3K2R w KQkq - 0 1",
    // castling refused: transit square attacked / target attacked / in check / blocked
    "r3k2r/8/8/8/8/5r2/8/R3K2R w KQkq - 0 1",
    "r3k2r/8/8/8/8/3r4/8/R3K2R w KQkq - 0 1",
    "r3k2r/8/8/8/8/4r3/8/R3K2R w KQkq - 0 1",
    "r3k2r/8/8/8/8/6r1/8/R3K2R w KQkq - 0 1",
    "r3k2r/8/8/8/8/2r5/8/R3K2R w KQkq - 0 1",
    "r3k2r/8/8/8/8/1r6/8/R3K2R w KQkq - 0 1",
    "rn2k1nr/8/8/8/8/8/8/RN2K1NR w KQkq - 0 1",
    "r2qk2r/8/8/8/8/8/8/R2QK2R w KQkq - 0 1",
    "r3k2r/8/8/8/8/8/6p1/R3K2R w KQkq - 0 1",
    "r3k2r/8/8/8/8/8/3p4/R3K2R w KQkq - 0 1",
    "r3k2r/8/8/8/8/5n2/8/R3K2R w KQkq - 0 1",
    "r3k2r/8/8/8/7b/8/8/R3K2R w KQkq - 0 1",
    // rook captured on its home square / rook takes rook
    "r3k2r/8/8/8/8/8/8/R3K2R w KQkq - 0 1",
    "r3k2r/1B6/8/8/8/8/6b1/R3K2R w KQkq - 0 1",
    "r3k2r/6N1/8/8/8/8/1n6/R3K2R b KQkq - 0 1",
    "1r2k2r/8/8/8/8/8/8/R3K2R w KQk - 0 1",
    // partial rights
    "r3k2r/8/8/8/8/8/8/R3K2R w Kq - 0 1",
    "r3k2r/8/8/8/8/8/8/R3K2R w Qk - 0 1",
    "r3k2r/8/8/8/8/8/8/R3K2R b K - 0 1",
    "r3k2r/8/8/8/8/8/8/R3K2R b q - 0 1",
    "r3k2r/8/8/8/8/8/8/4K2R w Kkq - 0 1",
    // en passant: plain, both sides
    "4k3/8/8/3pP3/8/8/8/4K3 w - d6 0 2",
    "4k3/8/8/8/3pP3/8/8/4K3 b - e3 0 2",
    "4k3/8/8/2PpP3/8/8/8/4K3 w - d6 0 2",
    // en passant exposes own king along the rank (illegal)
    "8/8/8/K2pP2r/8/8/8/4k3 w - d6 0 2",
    "4K3/8/8/8/R2Pp2k/8/8/8 b - d3 0 2",
    "8/8/8/8/k2Pp2R/8/8/4K3 b - d3 0 2",
    // en passant refused by diagonal pin / allowed along the pin
    "k7/6K1/8/3pP3/8/2b5/8/8 w - d6 0 2",
    "1b6/8/8/3pP3/8/8/7K/k7 w - d6 0 2",
    "8/8/8/K7/3pP3/8/7k/2B5 b - e3 0 2",
    // en passant as the only way out of check (checker is the double-pushed pawn)
    "8/8/8/3pP3/4K3/8/8/7k w - d6 0 2",
    "7K/8/8/4k3/3Pp3/8/8/8 b - d3 0 2",
    // en passant with discovered check on the opponent
    "4k3/8/8/3pP3/8/8/8/4RK2 w - d6 0 2",
    // promotions with and without capture, with check, both colours
    "n1n5/PPPk4/8/8/8/8/4Kppp/5N1N w - - 0 1",
    "n1n5/PPPk4/8/8/8/8/4Kppp/5N1N b - - 0 1",
    "3r3k/4P3/8/8/8/8/8/4K3 w - - 0 1",
    "4k3/8/8/8/8/8/4p3/3R3K b - - 0 1",
    "r1b1k3/1P6/8/8/8/8/8/4K3 w q - 0 1",
    // three pawns able to capture/promote onto one square
    "3rk3/2P1P3/8/8/8/8/8/4K3 w - - 0 1",
    "1n1n4/P1P1P3/8/8/8/8/k7/7K w - - 0 1",
    // double check, discovered check
    "4k3/8/8/8/8/8/4N3/4RK2 w - - 0 1",
    "4k3/8/3N4/8/8/8/8/4RK2 b - - 0 1",
    "4k3/5N2/8/7B/8/8/8/4K3 b - - 0 1",
    // pins of every kind
    "4k3/4r3/8/8/8/8/4B3/4K3 w - - 0 1",
    "4k3/8/8/8/1b6/8/3N4/4K3 w - - 0 1",
    "4k3/8/8/8/8/8/8/r2RK3 w - - 0 1",
    "4k3/8/8/8/7q/8/5P2/4K3 w - - 0 1",
    // mates and stalemates in one
    "6k1/5ppp/8/8/8/8/8/R3K3 w Q - 0 1",
    "7k/8/8/6Q1/8/8/8/5K2 w - - 0 1",
    "7k/5Q2/8/8/8/8/8/5K2 w - - 0 1",
    "k7/8/1K6/8/8/8/8/7R w - - 0 1",
    "5k2/8/8/8/8/6q1/8/7K b - - 0 1",
    "7k/5Q2/6K1/8/8/8/8/8 b - - 0 1",
    "k7/2Q5/1K6/8/8/8/8/8 b - - 0 1",
    "R6k/6pp/8/8/8/8/8/4K3 b - - 0 1",
    // like pieces able to reach one square from unrelated files and ranks
    "4k3/8/8/8/8/5N2/8/1N2K3 w - - 0 1",
    "4k3/8/8/R7/8/8/8/R3K3 w - - 0 1",
    "1k6/8/8/8/4Q2Q/8/8/K6Q w - - 0 1",
    "4k3/8/2N3N1/8/2N3N1/8/8/4K3 w - - 0 1",
    "k7/8/8/8/1B3B2/8/8/K7 w - - 0 1",
    "4k3/8/8/1r5r/8/8/8/4K3 b - - 0 1",
    "4r2k/8/8/8/8/8/4N3/N3K3 w - - 0 1",
    // draw-rule material
    "4k3/8/8/8/8/8/8/3QK3 w - - 0 1",
    "4k3/8/8/8/8/8/8/3RK3 w - - 0 1",
    "8/8/4k3/8/8/3K4/8/8 w - - 0 1",
    "8/8/4k3/8/8/3KQ3/8/8 b - - 0 1",
    "8/8/4k3/4n3/8/3KQR2/8/8 w - - 0 1",
    // middlegames
    "r1bq1rk1/ppp2ppp/2np1n2/2b1p3/2B1P3/2NP1N2/PPP2PPP/R1BQ1RK1 w - - 0 7",
    "r2q1rk1/pP1p2pp/Q4n2/bbp1p3/Np6/1B3NBn/pPPP1PPP/R3K2R b KQ - 0 1",
    "2kr3r/ppp2ppp/2n1bn2/2b1p3/4P3/2NP1N2/PPP1BPPP/R1B2RK1 b - - 4 9",
    "rnbqkb1r/pp1p1ppp/2p2n2/4p3/2B1P3/5N2/PPPP1PPP/RNBQK2R w KQkq - 0 4",
];

pub fn seeds() -> Vec<Pos> {
    let mut out = Vec::new();
    for f in SEED_FENS {
        let p = Pos::from_fen(f).unwrap_or_else(|e| panic!("bad seed fen {}: {}", f, e));
        assert!(p.is_legal_position(), "seed not a legal position: {}", f);
        let fl = p.flip();
        assert!(fl.is_legal_position(), "flipped seed not legal: {}", f);
        out.push(p);
        out.push(fl);
    }
    out
}
