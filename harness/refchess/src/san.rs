//! Reference SAN writer (FIDE C.10 / PGN standard 8.2.3).

use crate::*;

pub fn piece_letter(k: i8) -> char {
    match k {
        N => 'N',
        B => 'B',
        R => 'R',
        Q => 'Q',
        K => 'K',
        _ => '?',
    }
}

/// What kind of disambiguation the SAN of `m` needs: 0 none, 1 file, 2 rank, 3 both.
pub fn disambiguation_kind(p: &Pos, m: Mv) -> u8 {
    let pc = p.b[m.from as usize];
    if pc.abs() == P || pc.abs() == K {
        return 0;
    }
    let others: Vec<Mv> = p.legal_moves().into_iter().filter(|o| o.to == m.to && o.from != m.from && p.b[o.from as usize] == pc).collect();
    if others.is_empty() {
        0
    } else if !others.iter().any(|o| file_of(o.from) == file_of(m.from)) {
        1
    } else if !others.iter().any(|o| rank_of(o.from) == rank_of(m.from)) {
        2
    } else {
        3
    }
}

/// SAN of legal move `m` in `p`, including the check / mate suffix.
pub fn san(p: &Pos, m: Mv) -> String {
    let mut s = san_no_suffix(p, m);
    let n = p.make(m);
    if n.in_check(n.wtm) {
        if n.legal_moves().is_empty() {
            s.push('#');
        } else {
            s.push('+');
        }
    }
    s
}

pub fn san_no_suffix(p: &Pos, m: Mv) -> String {
    let pc = p.b[m.from as usize];
    let mut s = String::new();
    if p.is_castle(m) {
        return if file_of(m.to) == 6 { "O-O".to_string() } else { "O-O-O".to_string() };
    }
    let capture = p.is_capture(m);
    if pc.abs() == P {
        if capture {
            s.push((b'a' + m.from % 8) as char);
            s.push('x');
        }
        s.push_str(&sq_name(m.to));
        if m.promo != 0 {
            s.push('=');
            s.push(piece_letter(m.promo));
        }
        return s;
    }
    s.push(piece_letter(pc.abs()));
    match disambiguation_kind(p, m) {
        1 => s.push((b'a' + m.from % 8) as char),
        2 => s.push((b'1' + m.from / 8) as char),
        3 => s.push_str(&sq_name(m.from)),
        _ => {}
    }
    if capture {
        s.push('x');
    }
    s.push_str(&sq_name(m.to));
    s
}

pub fn self_test() -> Vec<String> {
    let mut fails = Vec::new();
    let cases = [
        // (fen, uci, san)
        ("rnbqkbnr/pppppppp/8/8/8/8/PPPPPPPP/RNBQKBNR w KQkq - 0 1", "g1f3", "Nf3"),
        ("rnbqkbnr/pppppppp/8/8/8/8/PPPPPPPP/RNBQKBNR w KQkq - 0 1", "e2e4", "e4"),
        ("4k3/8/8/8/8/5N2/8/1N2K3 w - - 0 1", "b1d2", "Nbd2"),
        ("4k3/8/8/8/8/5N2/8/1N2K3 w - - 0 1", "f3d2", "Nfd2"),
        ("4k3/8/8/R7/8/8/8/R3K3 w - - 0 1", "a1a3", "R1a3"),
        ("4k3/8/8/R7/8/8/8/R3K3 w - - 0 1", "a5a3", "R5a3"),
        ("1k6/8/8/8/4Q2Q/8/8/K6Q w - - 0 1", "h4e1", "Qh4e1"),
        ("1k6/8/8/8/4Q2Q/8/8/K6Q w - - 0 1", "e4e1", "Qee1"),
        ("1k6/8/8/8/4Q2Q/8/8/K6Q w - - 0 1", "h1e1", "Q1e1"),
        ("7k/8/8/6Q1/8/8/8/5K2 w - - 0 1", "g5g6", "Qg6"),
        ("6k1/5ppp/8/8/8/8/8/R3K3 w Q - 0 1", "a1a8", "Ra8#"),
        ("r3k2r/8/8/8/8/8/8/4K3 b kq - 0 1", "e8g8", "O-O"),
        ("r3k2r/8/8/8/8/8/8/4K3 b kq - 0 1", "e8c8", "O-O-O"),
        ("4k3/8/8/3pP3/8/8/8/4K3 w - d6 0 1", "e5d6", "exd6"),
        ("3r3k/4P3/8/8/8/8/8/4K3 w - - 0 1", "e7d8n", "exd8=N"),
        ("3r3k/4P3/8/8/8/8/8/4K3 w - - 0 1", "e7e8q", "e8=Q+"),
        // pinned knight must not trigger disambiguation: knight e2 is pinned by the rook on e8
        ("4r2k/8/8/8/8/8/4N3/N3K3 w - - 0 1", "a1c2", "Nc2"),
    ];
    for (f, u, want) in cases {
        let p = Pos::from_fen(f).unwrap();
        let m = Mv::from_uci(u).unwrap();
        if !p.is_legal(m) {
            fails.push(format!("san self-test: {} not legal in {}", u, f));
            continue;
        }
        let got = san(&p, m);
        if got != want {
            fails.push(format!("san self-test: {} in {} = {} expected {}", u, f, got, want));
        }
    }
    fails
}
