//! refchess — an independent, deliberately simple model of the rules of chess.
//!
//! This is the oracle of the runtime monitors. It shares no code, data layout or algorithm with
//! the code under test: 8x8 mailbox, squares are (file, rank) pairs packed as rank*8+file with
//! rank 0 = the first rank, move generation by stepping along offsets, legality by "make on a
//! copy, is the own king attacked?", attack detection by scanning outward from the target square.

pub mod fen;
pub mod gen;
pub mod san;
pub mod search;
pub mod seeds;

pub const P: i8 = 1;
pub const N: i8 = 2;
pub const B: i8 = 3;
pub const R: i8 = 4;
pub const Q: i8 = 5;
pub const K: i8 = 6;

pub const WK: usize = 0;
pub const WQ: usize = 1;
pub const BK: usize = 2;
pub const BQ: usize = 3;

#[inline]
pub fn sq(file: i32, rank: i32) -> u8 {
    (rank * 8 + file) as u8
}
#[inline]
pub fn file_of(s: u8) -> i32 {
    (s % 8) as i32
}
#[inline]
pub fn rank_of(s: u8) -> i32 {
    (s / 8) as i32
}
pub fn sq_name(s: u8) -> String {
    let mut r = String::new();
    r.push((b'a' + s % 8) as char);
    r.push((b'1' + s / 8) as char);
    r
}
pub fn sq_from_name(n: &str) -> Option<u8> {
    let b = n.as_bytes();
    if b.len() != 2 || !(b'a'..=b'h').contains(&b[0]) || !(b'1'..=b'8').contains(&b[1]) {
        return None;
    }
    Some((b[1] - b'1') * 8 + (b[0] - b'a'))
}

#[derive(Clone, PartialEq, Eq, Hash, Debug)]
pub struct Pos {
    /// piece on square; >0 white, <0 black, 0 empty
    pub b: [i8; 64],
    pub wtm: bool,
    /// KQkq
    pub castle: [bool; 4],
    /// en-passant target square exactly as it appears in the FEN field
    pub ep: Option<u8>,
    pub half: u32,
    pub full: u32,
}

#[derive(Clone, Copy, PartialEq, Eq, Hash, Debug, PartialOrd, Ord)]
pub struct Mv {
    pub from: u8,
    pub to: u8,
    /// 0 or N/B/R/Q
    pub promo: i8,
}

impl Mv {
    pub fn uci(&self) -> String {
        let mut s = sq_name(self.from);
        s.push_str(&sq_name(self.to));
        match self.promo {
            N => s.push('n'),
            B => s.push('b'),
            R => s.push('r'),
            Q => s.push('q'),
            _ => {}
        }
        s
    }
    pub fn from_uci(u: &str) -> Option<Mv> {
        if u.len() != 4 && u.len() != 5 {
            return None;
        }
        if !u.is_ascii() {
            return None;
        }
        let from = sq_from_name(&u[0..2])?;
        let to = sq_from_name(&u[2..4])?;
        let promo = if u.len() == 5 {
            match &u[4..5] {
                "n" => N,
                "b" => B,
                "r" => R,
                "q" => Q,
                _ => return None,
            }
        } else {
            0
        };
        Some(Mv { from, to, promo })
    }
}

const KNIGHT_D: [(i32, i32); 8] = [(1, 2), (2, 1), (2, -1), (1, -2), (-1, -2), (-2, -1), (-2, 1), (-1, 2)];
const KING_D: [(i32, i32); 8] = [(1, 0), (1, 1), (0, 1), (-1, 1), (-1, 0), (-1, -1), (0, -1), (1, -1)];
const ROOK_D: [(i32, i32); 4] = [(1, 0), (0, 1), (-1, 0), (0, -1)];
const BISHOP_D: [(i32, i32); 4] = [(1, 1), (-1, 1), (-1, -1), (1, -1)];

#[inline]
fn on(f: i32, r: i32) -> bool {
    (0..8).contains(&f) && (0..8).contains(&r)
}

impl Pos {
    pub fn startpos() -> Pos {
        Pos::from_fen("rnbqkbnr/pppppppp/8/8/8/8/PPPPPPPP/RNBQKBNR w KQkq - 0 1").unwrap()
    }

    pub fn from_fen(s: &str) -> Result<Pos, String> {
        match fen::classify(s) {
            fen::FenClass::Valid(p) => Ok(*p),
            fen::FenClass::Invalid(why) => Err(why),
            fen::FenClass::Unspecified(why) => Err(format!("unspecified: {}", why)),
        }
    }

    pub fn to_fen(&self) -> String {
        fen::write(self)
    }

    pub fn at(&self, f: i32, r: i32) -> i8 {
        self.b[sq(f, r) as usize]
    }

    pub fn king_sq(&self, white: bool) -> Option<u8> {
        let k = if white { K } else { -K };
        (0..64u8).find(|&s| self.b[s as usize] == k)
    }

    /// Is square `s` attacked by a piece of colour `by_white`?
    pub fn attacked(&self, s: u8, by_white: bool) -> bool {
        let (f, r) = (file_of(s), rank_of(s));
        let sign: i8 = if by_white { 1 } else { -1 };
        // pawns: a white pawn on (f±1, r-1) attacks (f, r); a black pawn on (f±1, r+1)
        let pr = if by_white { r - 1 } else { r + 1 };
        for df in [-1, 1] {
            if on(f + df, pr) && self.at(f + df, pr) == sign * P {
                return true;
            }
        }
        for (df, dr) in KNIGHT_D {
            if on(f + df, r + dr) && self.at(f + df, r + dr) == sign * N {
                return true;
            }
        }
        for (df, dr) in KING_D {
            if on(f + df, r + dr) && self.at(f + df, r + dr) == sign * K {
                return true;
            }
        }
        for (df, dr) in ROOK_D {
            let (mut x, mut y) = (f + df, r + dr);
            while on(x, y) {
                let p = self.at(x, y);
                if p != 0 {
                    if p == sign * R || p == sign * Q {
                        return true;
                    }
                    break;
                }
                x += df;
                y += dr;
            }
        }
        for (df, dr) in BISHOP_D {
            let (mut x, mut y) = (f + df, r + dr);
            while on(x, y) {
                let p = self.at(x, y);
                if p != 0 {
                    if p == sign * B || p == sign * Q {
                        return true;
                    }
                    break;
                }
                x += df;
                y += dr;
            }
        }
        false
    }

    /// Number of pieces of colour `by_white` attacking `s` (for coverage counters: double check).
    pub fn attackers(&self, s: u8, by_white: bool) -> u32 {
        (0..64u8).filter(|&from| {
            let p = self.b[from as usize];
            p != 0 && (p > 0) == by_white && self.piece_attacks(from, s)
        }).count() as u32
    }

    /// Does the piece standing on `from` attack square `to` (geometry + blockers)?
    pub fn piece_attacks(&self, from: u8, to: u8) -> bool {
        let p = self.b[from as usize];
        if p == 0 || from == to {
            return false;
        }
        let (ff, fr, tf, tr) = (file_of(from), rank_of(from), file_of(to), rank_of(to));
        let (df, dr) = (tf - ff, tr - fr);
        match p.abs() {
            P => {
                let dir = if p > 0 { 1 } else { -1 };
                dr == dir && df.abs() == 1
            }
            N => (df.abs() == 1 && dr.abs() == 2) || (df.abs() == 2 && dr.abs() == 1),
            K => df.abs() <= 1 && dr.abs() <= 1,
            B | R | Q => {
                let straight = df == 0 || dr == 0;
                let diag = df.abs() == dr.abs();
                let ok = match p.abs() {
                    B => diag,
                    R => straight,
                    _ => straight || diag,
                };
                if !ok {
                    return false;
                }
                let (sf, sr) = (df.signum(), dr.signum());
                let (mut x, mut y) = (ff + sf, fr + sr);
                while (x, y) != (tf, tr) {
                    if self.at(x, y) != 0 {
                        return false;
                    }
                    x += sf;
                    y += sr;
                }
                true
            }
            _ => false,
        }
    }

    pub fn in_check(&self, white: bool) -> bool {
        match self.king_sq(white) {
            Some(k) => self.attacked(k, !white),
            None => false,
        }
    }

    pub fn pseudo_moves(&self) -> Vec<Mv> {
        let mut out = Vec::with_capacity(48);
        let white = self.wtm;
        for from in 0..64u8 {
            let p = self.b[from as usize];
            if p == 0 || (p > 0) != white {
                continue;
            }
            let (f, r) = (file_of(from), rank_of(from));
            match p.abs() {
                P => {
                    let dir = if white { 1 } else { -1 };
                    let start = if white { 1 } else { 6 };
                    let last = if white { 7 } else { 0 };
                    let push = |out: &mut Vec<Mv>, to: u8| {
                        if rank_of(to) == last {
                            for pr in [Q, R, B, N] {
                                out.push(Mv { from, to, promo: pr });
                            }
                        } else {
                            out.push(Mv { from, to, promo: 0 });
                        }
                    };
                    if on(f, r + dir) && self.at(f, r + dir) == 0 {
                        push(&mut out, sq(f, r + dir));
                        if r == start && self.at(f, r + 2 * dir) == 0 {
                            out.push(Mv { from, to: sq(f, r + 2 * dir), promo: 0 });
                        }
                    }
                    for df in [-1, 1] {
                        if !on(f + df, r + dir) {
                            continue;
                        }
                        let to = sq(f + df, r + dir);
                        let t = self.b[to as usize];
                        if t != 0 && (t > 0) != white {
                            push(&mut out, to);
                        } else if t == 0 && self.ep == Some(to) {
                            // en passant: victim stands beside the capturing pawn
                            let victim = self.at(f + df, r);
                            if victim == if white { -P } else { P } {
                                out.push(Mv { from, to, promo: 0 });
                            }
                        }
                    }
                }
                N | K => {
                    let ds = if p.abs() == N { KNIGHT_D } else { KING_D };
                    for (df, dr) in ds {
                        if on(f + df, r + dr) {
                            let t = self.at(f + df, r + dr);
                            if t == 0 || (t > 0) != white {
                                out.push(Mv { from, to: sq(f + df, r + dr), promo: 0 });
                            }
                        }
                    }
                }
                _ => {
                    let mut dirs: Vec<(i32, i32)> = Vec::new();
                    if p.abs() != B {
                        dirs.extend_from_slice(&ROOK_D);
                    }
                    if p.abs() != R {
                        dirs.extend_from_slice(&BISHOP_D);
                    }
                    for (df, dr) in dirs {
                        let (mut x, mut y) = (f + df, r + dr);
                        while on(x, y) {
                            let t = self.at(x, y);
                            if t == 0 {
                                out.push(Mv { from, to: sq(x, y), promo: 0 });
                            } else {
                                if (t > 0) != white {
                                    out.push(Mv { from, to: sq(x, y), promo: 0 });
                                }
                                break;
                            }
                            x += df;
                            y += dr;
                        }
                    }
                }
            }
        }
        // castling
        for (mv, _) in self.castle_candidates() {
            out.push(mv);
        }
        out
    }

    /// Castling moves that are currently playable (rules: right present, king and rook at home,
    /// squares between empty, king not in check, transit and target squares not attacked).
    /// Returns (move, index into `castle`).
    pub fn castle_candidates(&self) -> Vec<(Mv, usize)> {
        let mut out = Vec::new();
        for idx in self.castle_status().into_iter().filter(|s| s.1 == CastleStatus::Available).map(|s| s.0) {
            let r = if idx < 2 { 0 } else { 7 };
            let to_file = if idx % 2 == 0 { 6 } else { 2 };
            out.push((Mv { from: sq(4, r), to: sq(to_file, r), promo: 0 }, idx));
        }
        out
    }

    /// For the side to move: status of both castling options whose right is present.
    pub fn castle_status(&self) -> Vec<(usize, CastleStatus)> {
        let mut out = Vec::new();
        let white = self.wtm;
        let r = if white { 0 } else { 7 };
        let sign: i8 = if white { 1 } else { -1 };
        for (idx, rook_file, empties, transit) in [
            (if white { WK } else { BK }, 7, vec![5, 6], vec![5, 6]),
            (if white { WQ } else { BQ }, 0, vec![1, 2, 3], vec![3, 2]),
        ] {
            if !self.castle[idx] {
                continue;
            }
            if self.at(4, r) != sign * K || self.at(rook_file, r) != sign * R {
                out.push((idx, CastleStatus::NoPieces));
                continue;
            }
            if empties.iter().any(|&f| self.at(f, r) != 0) {
                out.push((idx, CastleStatus::Blocked));
                continue;
            }
            if self.attacked(sq(4, r), !white) {
                out.push((idx, CastleStatus::InCheck));
                continue;
            }
            if transit.iter().any(|&f| self.attacked(sq(f, r), !white)) {
                out.push((idx, CastleStatus::ThroughCheck));
                continue;
            }
            out.push((idx, CastleStatus::Available));
        }
        out
    }

    pub fn is_castle(&self, m: Mv) -> bool {
        self.b[m.from as usize].abs() == K && (file_of(m.from) - file_of(m.to)).abs() == 2
    }
    pub fn is_ep(&self, m: Mv) -> bool {
        self.b[m.from as usize].abs() == P && file_of(m.from) != file_of(m.to) && self.b[m.to as usize] == 0
    }
    pub fn is_capture(&self, m: Mv) -> bool {
        self.b[m.to as usize] != 0 || self.is_ep(m)
    }

    /// Successor position. `m` must be at least pseudo-legal.
    pub fn make(&self, m: Mv) -> Pos {
        let mut n = self.clone();
        let p = self.b[m.from as usize];
        let white = p > 0;
        let captured = self.b[m.to as usize];
        let mut is_capture = captured != 0;
        n.b[m.from as usize] = 0;
        n.b[m.to as usize] = if m.promo != 0 { if white { m.promo } else { -m.promo } } else { p };
        if p.abs() == P && file_of(m.from) != file_of(m.to) && captured == 0 {
            // en passant
            n.b[sq(file_of(m.to), rank_of(m.from)) as usize] = 0;
            is_capture = true;
        }
        if p.abs() == K && (file_of(m.from) - file_of(m.to)).abs() == 2 {
            let r = rank_of(m.from);
            if file_of(m.to) == 6 {
                n.b[sq(5, r) as usize] = n.b[sq(7, r) as usize];
                n.b[sq(7, r) as usize] = 0;
            } else {
                n.b[sq(3, r) as usize] = n.b[sq(0, r) as usize];
                n.b[sq(0, r) as usize] = 0;
            }
        }
        // castling rights
        if p == K {
            n.castle[WK] = false;
            n.castle[WQ] = false;
        }
        if p == -K {
            n.castle[BK] = false;
            n.castle[BQ] = false;
        }
        for s in [m.from, m.to] {
            match s {
                0 => n.castle[WQ] = false,
                7 => n.castle[WK] = false,
                56 => n.castle[BQ] = false,
                63 => n.castle[BK] = false,
                _ => {}
            }
        }
        n.ep = if p.abs() == P && (rank_of(m.from) - rank_of(m.to)).abs() == 2 {
            Some(sq(file_of(m.from), (rank_of(m.from) + rank_of(m.to)) / 2))
        } else {
            None
        };
        n.half = if p.abs() == P || is_capture { 0 } else { self.half + 1 };
        n.full = if white { self.full } else { self.full + 1 };
        n.wtm = !self.wtm;
        n
    }

    pub fn legal_moves(&self) -> Vec<Mv> {
        let white = self.wtm;
        self.pseudo_moves().into_iter().filter(|&m| !self.make(m).in_check(white)).collect()
    }

    pub fn is_legal(&self, m: Mv) -> bool {
        self.legal_moves().contains(&m)
    }

    pub fn is_mate(&self) -> bool {
        self.in_check(self.wtm) && self.legal_moves().is_empty()
    }
    pub fn is_stalemate(&self) -> bool {
        !self.in_check(self.wtm) && self.legal_moves().is_empty()
    }

    pub fn perft(&self, d: u32) -> u64 {
        if d == 0 {
            return 1;
        }
        let ms = self.legal_moves();
        if d == 1 {
            return ms.len() as u64;
        }
        ms.into_iter().map(|m| self.make(m).perft(d - 1)).sum()
    }

    /// Position identity for hashing purposes: placement, side, rights, e.p. file as in the FEN field.
    pub fn key(&self) -> PosKey {
        let mut k = [0u8; 34];
        for i in 0..32 {
            let a = (self.b[2 * i] + 6) as u8;
            let b = (self.b[2 * i + 1] + 6) as u8;
            k[i] = a * 16 + b;
        }
        k[32] = (self.wtm as u8) | (self.castle[0] as u8) << 1 | (self.castle[1] as u8) << 2 | (self.castle[2] as u8) << 3 | (self.castle[3] as u8) << 4;
        k[33] = match self.ep {
            Some(s) => 1 + (s % 8),
            None => 0,
        };
        PosKey(k)
    }

    /// Vertical mirror + colour swap (side to move, castling rights, e.p. square included).
    pub fn flip(&self) -> Pos {
        let mut n = self.clone();
        for s in 0..64u8 {
            let t = sq(file_of(s), 7 - rank_of(s));
            n.b[t as usize] = -self.b[s as usize];
        }
        n.wtm = !self.wtm;
        n.castle = [self.castle[BK], self.castle[BQ], self.castle[WK], self.castle[WQ]];
        n.ep = self.ep.map(|s| sq(file_of(s), 7 - rank_of(s)));
        n
    }

    /// Is this a position the monitors treat as a *legal chess position* (the domain of the
    /// properties)? Conservative structural conditions only.
    pub fn is_legal_position(&self) -> bool {
        let wk = (0..64).filter(|&s| self.b[s] == K).count();
        let bk = (0..64).filter(|&s| self.b[s] == -K).count();
        if wk != 1 || bk != 1 {
            return false;
        }
        let (a, b) = (self.king_sq(true).unwrap(), self.king_sq(false).unwrap());
        if (file_of(a) - file_of(b)).abs() <= 1 && (rank_of(a) - rank_of(b)).abs() <= 1 {
            return false;
        }
        if self.in_check(!self.wtm) {
            return false;
        }
        for f in 0..8 {
            if self.at(f, 0).abs() == P || self.at(f, 7).abs() == P {
                return false;
            }
        }
        // piece counts a game can produce
        for sign in [1i8, -1] {
            let cnt = |k: i8| (0..64).filter(|&s| self.b[s] == sign * k).count();
            let pawns = cnt(P);
            if pawns > 8 {
                return false;
            }
            let extra = cnt(N).saturating_sub(2) + cnt(B).saturating_sub(2) + cnt(R).saturating_sub(2) + cnt(Q).saturating_sub(1);
            if extra + pawns > 8 {
                return false;
            }
        }
        if self.castle[WK] && !(self.at(4, 0) == K && self.at(7, 0) == R) {
            return false;
        }
        if self.castle[WQ] && !(self.at(4, 0) == K && self.at(0, 0) == R) {
            return false;
        }
        if self.castle[BK] && !(self.at(4, 7) == -K && self.at(7, 7) == -R) {
            return false;
        }
        if self.castle[BQ] && !(self.at(4, 7) == -K && self.at(0, 7) == -R) {
            return false;
        }
        if let Some(e) = self.ep {
            let (f, r) = (file_of(e), rank_of(e));
            if self.wtm {
                // black just double-stepped: target on rank 6 (index 5), pawn on rank 5 (index 4)
                if r != 5 || self.at(f, 4) != -P || self.at(f, 5) != 0 || self.at(f, 6) != 0 {
                    return false;
                }
            } else if r != 2 || self.at(f, 3) != P || self.at(f, 2) != 0 || self.at(f, 1) != 0 {
                return false;
            }
            // the position before the double push must not have had the mover's opponent in check
            // in a way the push could not have answered — not needed for move rules; skipped.
        }
        true
    }
}

#[derive(Clone, Copy, PartialEq, Eq, Debug)]
pub enum CastleStatus {
    Available,
    NoPieces,
    Blocked,
    InCheck,
    ThroughCheck,
}

#[derive(Clone, Copy, PartialEq, Eq, Hash, Debug, PartialOrd, Ord)]
pub struct PosKey(pub [u8; 34]);

impl PosKey {
    pub fn h64(&self) -> u64 {
        // FNV-1a, only used for counting distinct keys compactly
        let mut h: u64 = 0xcbf29ce484222325;
        for b in self.0 {
            h ^= b as u64;
            h = h.wrapping_mul(0x100000001b3);
        }
        h
    }
}

/// Self-test against published perft numbers and hand-checked facts. Returns a list of failures.
pub fn self_test(deep: bool) -> Vec<String> {
    let mut fails = Vec::new();
    let cases: &[(&str, &[u64])] = &[
        ("rnbqkbnr/pppppppp/8/8/8/8/PPPPPPPP/RNBQKBNR w KQkq - 0 1", &[20, 400, 8902, 197281]),
        ("r3k2r/p1ppqpb1/bn2pnp1/3PN3/1p2P3/2N2Q1p/PPPBBPPP/R3K2R w KQkq - 0 1", &[48, 2039, 97862]),
        ("8/2p5/3p4/KP5r/1R3p1k/8/4P1P1/8 w - - 0 1", &[14, 191, 2812, 43238]),
        ("r3k2r/Pppp1ppp/1b3nbN/nP6/BBP1P3/q4N2/Pp1P2PP/R2Q1RK1 w kq - 0 1", &[6, 264, 9467]),
        ("r2q1rk1/pP1p2pp/Q4n2/bbp1p3/Np6/1B3NBn/pPPP1PPP/R3K2R b KQ - 0 1", &[6, 264, 9467]),
        ("rnbq1k1r/pp1Pbppp/2p5/8/2B5/8/PPP1NnPP/RNBQK2R w KQ - 1 8", &[44, 1486, 62379]),
        ("r4rk1/1pp1qppp/p1np1n2/2b1p1B1/2B1P1b1/P1NP1N2/1PP1QPPP/R4RK1 w - - 0 10", &[46, 2079, 89890]),
    ];
    for (f, counts) in cases {
        let p = match Pos::from_fen(f) {
            Ok(p) => p,
            Err(e) => {
                fails.push(format!("fen {} rejected: {}", f, e));
                continue;
            }
        };
        if p.to_fen() != *f {
            fails.push(format!("fen round trip {} -> {}", f, p.to_fen()));
        }
        for (i, &c) in counts.iter().enumerate() {
            let d = i as u32 + 1;
            if !deep && c > 100_000 {
                continue;
            }
            let got = p.perft(d);
            if got != c {
                fails.push(format!("perft({}) of {} = {} expected {}", d, f, got, c));
            }
        }
        // flip twice is identity; flipped perft equal
        if p.flip().flip() != p {
            fails.push(format!("flip not involutive for {}", f));
        }
        if p.flip().perft(2) != p.perft(2) {
            fails.push(format!("flip changes perft(2) for {}", f));
        }
    }
    fails.extend(san::self_test());
    fails.extend(fen::self_test());
    fails
}
