#![no_main]
//! Coverage-guided workload for C15: no input line may panic the parser; accepted move text must be
//! read as the move it spells.
use libfuzzer_sys::fuzz_target;
use std::str::FromStr;

use inkayaku_uci::parser::CommandParser;
use inkayaku_uci::UciMove;

fuzz_target!(|data: &[u8]| {
    let s = match std::str::from_utf8(data) { Ok(s) => s, Err(_) => return };
    let _ = CommandParser::new(s).parse();
    for tok in s.split(' ').take(8) {
        if let Ok(m) = UciMove::from_str(tok) {
            if tok.chars().count() <= 5 {
                assert_eq!(m.to_string(), tok.to_lowercase(), "move token {:?} read as {}", tok, m);
            }
        }
    }
});
