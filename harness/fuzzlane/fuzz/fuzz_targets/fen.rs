#![no_main]
//! Coverage-guided workload for C12: any input string must be classified consistently with the
//! reference's strict reader and must never panic an entry point.
use libfuzzer_sys::fuzz_target;
use std::str::FromStr;

use inkayaku_board::Bitboard;
use inkayaku_core::fen::Fen;
use refchess::fen::{classify, FenClass};

fuzz_target!(|data: &[u8]| {
    let s = match std::str::from_utf8(data) { Ok(s) => s, Err(_) => return };
    let accepted = Fen::from_str(s).is_ok();
    assert_eq!(accepted, Fen::is_valid(s), "is_valid disagrees with from_str on {:?}", s);
    let board = Bitboard::from_fen_string(s);
    assert_eq!(accepted, board.is_ok(), "from_fen_string disagrees with from_str on {:?}", s);
    if s == "startpos" { return; }
    match classify(s) {
        FenClass::Invalid(why) => assert!(!accepted, "{:?} accepted although: {}", s, why),
        FenClass::Valid(p) => {
            assert!(accepted, "valid FEN {:?} rejected", s);
            if p.is_legal_position() {
                let bb = board.unwrap();
                let six = if s.split(' ').count() == 4 { format!("{} 0 1", s) } else { s.to_string() };
                assert_eq!(Fen::from(&bb).fen, six, "FEN {:?} not written back identically", s);
                assert_eq!(p.to_fen(), six);
            }
        }
        FenClass::Unspecified(_) => { if let Ok(bb) = board { let _ = Fen::from(&bb); } }
    }
});
