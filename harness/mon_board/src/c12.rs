//! C12 — FEN reading and writing are exact, inverse to each other, and total.

use inkayaku_board::Bitboard;
use inkayaku_core::constants::Square;
use inkayaku_core::fen::Fen;
use monlib::{guarded, guarded_mut, json, panic_sig, Report};
use rand::rngs::StdRng;
use rand::seq::SliceRandom;
use rand::Rng;
use refchess::fen::{classify, write4, FenClass};
use refchess::*;

use crate::adapter::*;
use crate::strgen;

const FEN_ALPHABET: &[u8] = b"PNBRQKpnbrqk12345678/ wb-KQkqabcdefgh0123456789";

/// compare the decoded board with reference position `r`
fn decode_diff(bb: &Bitboard, r: &Pos) -> Vec<String> {
    let mut d = Vec::new();
    for s in 0..64u8 {
        let name = sq_name(s);
        let mut ch = name.chars();
        let square = Square::from_chars(ch.next().unwrap(), ch.next().unwrap()).unwrap();
        let got = bb.get_colored_piece(square).map(|cp| cp.fen);
        let want = if r.b[s as usize] == 0 { None } else { Some(refchess::fen::piece_char(r.b[s as usize])) };
        if got != want {
            d.push(format!("square {}: {:?} != {:?}", name, got, want));
        }
    }
    if (bb.turn == 0) != r.wtm { d.push("side".into()); }
    let rights = [bb.white.king_side_castle, bb.white.queen_side_castle, bb.black.king_side_castle, bb.black.queen_side_castle];
    if rights != r.castle { d.push(format!("rights {:?} != {:?}", rights, r.castle)); }
    let ep = if bb.en_passant_square_shift == 0 { None } else { Some(to_ref_sq(bb.en_passant_square_shift)) };
    if ep != r.ep { d.push(format!("ep {:?} != {:?}", ep, r.ep)); }
    if bb.halfmove_clock != r.half { d.push(format!("halfmove {} != {}", bb.halfmove_clock, r.half)); }
    if bb.fullmove_clock != r.full { d.push(format!("fullmove {} != {}", bb.fullmove_clock, r.full)); }
    d
}

/// Check one arbitrary string. `expect`: what the generator intended (for counters only).
pub fn check_string(s: &str, rep: &mut Report, origin: &str) {
    rep.eval();
    let replay = json!({"kind":"c12","string":s});
    // "startpos" is accepted as an alias of the start position; the property does not speak about it
    let class = if s == "startpos" { FenClass::Unspecified("startpos alias".into()) } else { classify(s) };
    // (c) totality of every entry point
    let from_str = guarded(|| Fen::from_str_owned(s));
    let is_valid = guarded(|| Fen::is_valid(s));
    let board = guarded(|| Bitboard::from_fen_string(s));
    let mut panicked = false;
    for (name, r) in [("Fen::from_str", from_str.as_ref().err()), ("Fen::is_valid", is_valid.as_ref().err()), ("Bitboard::from_fen_string", board.as_ref().err())] {
        if let Some(pm) = r {
            panicked = true;
            rep.violation(&format!("{}-{}", name, panic_sig(pm)), format!("{}({:?}) panicked: {}", name, s, pm), replay.clone());
        }
    }
    if panicked {
        return;
    }
    let accepted = from_str.as_ref().unwrap().is_ok();
    let valid = *is_valid.as_ref().unwrap();
    let board = board.unwrap();
    if accepted != valid {
        rep.violation("is_valid-disagrees-with-from_str", format!("is_valid({:?})={} from_str ok={}", s, valid, accepted), replay.clone());
    }
    if accepted != board.is_ok() {
        rep.violation("from_fen_string-disagrees-with-from_str", format!("from_fen_string({:?}) ok={} from_str ok={}", s, board.is_ok(), accepted), replay.clone());
    }
    match &class {
        FenClass::Invalid(why) => {
            rep.count(&format!("negative_{}", origin));
            rep.count(&format!("fault_{}", why.split(|c: char| c.is_ascii_digit() || c == '"' || c == '\'').next().unwrap_or("").trim()));
            rep.distinct_str(s);
            if accepted {
                rep.violation(&format!("accepts-invalid:{}", why.split(' ').take(2).collect::<Vec<_>>().join("-")), format!("{:?} accepted although: {}", s, why), replay.clone());
            }
        }
        FenClass::Unspecified(_) => {
            rep.count(&format!("unspecified_{}", origin));
        }
        FenClass::Valid(r) => {
            rep.count(&format!("positive_{}", origin));
            if !accepted {
                rep.violation("rejects-valid", format!("{:?} rejected: {:?}", s, from_str.as_ref().unwrap()), replay.clone());
            } else if r.is_legal_position() {
                rep.distinct_hash(r.key().h64() ^ monlib::fnv(s.as_bytes()));
                if let Ok(bb) = &board {
                    let d = decode_diff(bb, r);
                    if !d.is_empty() {
                        rep.violation(&format!("decodes-wrongly:{}", d[0].split(' ').next().unwrap_or("")), format!("{:?} decoded wrongly: {}", s, d.join("; ")), replay.clone());
                    }
                    // writer: canonical text
                    let six = if s.split(' ').count() == 4 { format!("{} 0 1", s) } else { s.to_string() };
                    match fen_of(bb) {
                        Err(pm) => rep.violation(&format!("writer-{}", panic_sig(&pm)), format!("Fen::from(&Bitboard) panicked for {:?}: {}", s, pm), replay.clone()),
                        Ok(w) => {
                            if w != six {
                                rep.violation(&format!("writer-differs:{}", fen_fields_diff(&w, &six)), format!("{:?} written back as {:?}", s, w), replay.clone());
                            } else {
                                rep.count("round_trips");
                            }
                        }
                    }
                }
            }
        }
    }
    // accepted strings must also survive the writer without panicking
    if accepted {
        if let Ok(bb) = &board {
            if let Err(pm) = guarded_mut(|| Fen::from(bb).fen) {
                // only when the text describes a decodable board (unique piece per square is guaranteed by construction)
                rep.violation(&format!("writer-{}", panic_sig(&pm)), format!("Fen::from(&Bitboard) panicked for accepted {:?}: {}", s, pm), replay.clone());
            }
        }
    }
}

trait FromStrOwned: Sized {
    fn from_str_owned(s: &str) -> Result<Self, String>;
}
impl FromStrOwned for Fen {
    fn from_str_owned(s: &str) -> Result<Self, String> {
        use std::str::FromStr;
        Fen::from_str(s).map_err(|e| format!("{:?}", e))
    }
}

/// targeted single faults of the classes the property lists
pub fn targeted_fault(rng: &mut StdRng, fen: &str) -> String {
    let mut f: Vec<String> = fen.split(' ').map(|s| s.to_string()).collect();
    match rng.gen_range(0..17) {
        0 => { f.truncate(rng.gen_range(0..4)); }
        1 => { f.truncate(5); }
        2 => { f.push(["1", "w", "-", "x"].choose(rng).unwrap().to_string()); }
        3 => { // illegal character in placement
            let mut c: Vec<char> = f[0].chars().collect();
            let i = rng.gen_range(0..c.len());
            // includes characters that Unicode case folding maps onto the piece letters (KELVIN SIGN -> k, ...)
            c[i] = *['x', '9', '0', 'P' as u8 as char, 'é', 'Z', '.', '٣', '\u{212A}', '\u{017F}', 'ｋ', 'Ｑ', 'к'].choose(rng).unwrap();
            if c[i] == 'P' { c[i] = 'y'; }
            f[0] = c.into_iter().collect();
        }
        4 => { // rank not summing to 8
            let mut ranks: Vec<String> = f[0].split('/').map(|s| s.to_string()).collect();
            let i = rng.gen_range(0..ranks.len());
            if rng.gen_bool(0.5) { ranks[i].push('P'); } else if ranks[i].len() > 1 { ranks[i].pop(); } else { ranks[i] = "7".into(); }
            f[0] = ranks.join("/");
        }
        5 => { // adjacent digits summing to 8
            let mut ranks: Vec<String> = f[0].split('/').map(|s| s.to_string()).collect();
            let i = rng.gen_range(0..ranks.len());
            let a = rng.gen_range(1..8);
            if ranks[i] == "8" { ranks[i] = format!("{}{}", a, 8 - a); f[0] = ranks.join("/"); } else { f[0] = f[0].replacen('/', "/", 1); ranks[i] = format!("{}{}", a, 8 - a); f[0] = ranks.join("/"); }
        }
        6 => { let mut ranks: Vec<&str> = f[0].split('/').collect(); if rng.gen_bool(0.5) { ranks.pop(); } else { ranks.push("8"); } f[0] = ranks.join("/"); }
        7 => { f[1] = ["W", "B", "x", "white", "", "wb", "-"].choose(rng).unwrap().to_string(); }
        8 => { f[2] = ["KQkqx", "x", "KQkq-", "a", "1", "kQx", "--"].choose(rng).unwrap().to_string(); }
        9 => { f[3] = ["e9", "i3", "e", "33", "ee", "-e3", "E3", "e0", "x6"].choose(rng).unwrap().to_string(); }
        10 => { if f.len() == 6 { f[4] = ["x", "-1", "1.5", "a1", "1e3"].choose(rng).unwrap().to_string(); } }
        11 => { if f.len() == 6 { f[5] = ["x", "-1", "1.5", "one", "0x10"].choose(rng).unwrap().to_string(); } }
        12 => { f[0] = f[0].replace('/', ""); }
        14 => {
            // a field separator that is white space but not the blank the grammar asks for
            let ws = *['\t', '\n', '\r', '\u{000B}', '\u{000C}', '\u{0085}', '\u{00A0}', '\u{1680}', '\u{2003}', '\u{2028}', '\u{3000}'].choose(rng).unwrap();
            let i = rng.gen_range(0..f.len() - 1);
            let mut out = String::new();
            for (j, part) in f.iter().enumerate() {
                out.push_str(part);
                if j + 1 < f.len() { out.push(if j == i { ws } else { ' ' }); }
            }
            return out;
        }
        15 => { if f.len() == 6 { let k = 4 + rng.gen_range(0..2); f[k] = format!("{}{}", ["+", "+", "-", " +", "0+", "+-"].choose(rng).unwrap(), f[k]); } }
        16 => { if f.len() == 6 { let k = 4 + rng.gen_range(0..2); f[k] = format!("{}{}", f[k], ["+", "_", ".", "u32", "e0", "\u{0660}"].choose(rng).unwrap()); } }
        _ => { f[0] = f[0].replacen('/', "//", 1); }
    }
    f.join(" ")
}

/// unspecified-but-must-not-panic cases (wide clocks, unicode digits, full-move 0 ...)
pub fn odd_valid_shape(rng: &mut StdRng, fen: &str) -> String {
    let mut f: Vec<String> = fen.split(' ').map(|s| s.to_string()).collect();
    if f.len() < 6 { f.push("0".into()); f.push("1".into()); }
    match rng.gen_range(0..8) {
        0 => f[5] = "99999999999".into(),
        1 => f[4] = "4294967296".into(),
        2 => f[4] = "٣".into(),
        3 => f[5] = "１２".into(),
        4 => f[5] = "0".into(),
        5 => f[4] = format!("{}", u64::MAX),
        6 => f[5] = "007".into(),
        _ => f[4] = "18446744073709551616000".into(),
    }
    f.join(" ")
}

pub fn positive(p: &Pos, rep: &mut Report, rng: &mut StdRng) {
    // the position with clocks of any magnitude
    let mut q = p.clone();
    if q.ep.is_none() && rng.gen_bool(0.5) {
        q.half = *[0u32, 1, 99, 100, 150, 4095, 65535, 999_999_999, u32::MAX].choose(rng).unwrap();
    }
    if rng.gen_bool(0.5) {
        q.full = *[1u32, 2, 77, 2500, 30000, 65536, 999_999_999, u32::MAX].choose(rng).unwrap();
    }
    let s = q.to_fen();
    check_string(&s, rep, "stream");
    let subset = (q.castle[0] as u32) | (q.castle[1] as u32) << 1 | (q.castle[2] as u32) << 2 | (q.castle[3] as u32) << 3;
    rep.count(&format!("castle_rights_subset_{:02}", subset));
    if let Some(e) = q.ep { rep.count(&format!("ep_square_{}", sq_name(e))); }
    if rng.gen_range(0..3) == 0 {
        check_string(&write4(&q), rep, "four_field");
    }
    if rep.samples.len() < 4 && rng.gen_range(0..500) == 0 {
        rep.sample(json!({"positive": s}));
    }
}

pub fn negative(p: &Pos, rep: &mut Report, rng: &mut StdRng) {
    let s = p.to_fen();
    let base = if rng.gen_bool(0.2) { write4(p) } else { s };
    let m = match rng.gen_range(0..10) {
        0..=4 => strgen::mutate(rng, &base, FEN_ALPHABET),
        5..=7 => targeted_fault(rng, &base),
        8 => odd_valid_shape(rng, &base),
        _ => {
            let a = strgen::mutate(rng, &base, FEN_ALPHABET);
            strgen::mutate(rng, &a, FEN_ALPHABET)
        }
    };
    check_string(&m, rep, "mutant");
    if rep.samples.len() < 8 && rng.gen_range(0..500) == 0 {
        rep.sample(json!({"mutant": m, "classified": format!("{:?}", classify(&m)).chars().take(60).collect::<String>()}));
    }
}

pub fn random_strings(rep: &mut Report, rng: &mut StdRng, n: u64) {
    for _ in 0..n {
        let s = strgen::random_utf8(rng, 90);
        check_string(&s, rep, "random");
    }
    for s in ["", " ", "startpos", "8/8/8/8/8/8/8/8 w - -", "8/8/8/8/8/8/8/8 w - - 0 1", "\u{0}", "////// w - -"] {
        check_string(s, rep, "fixed");
    }
}
