//! C06 — position hashes: incremental equals recomputed, and identifies the position.

use std::collections::HashMap;

use inkayaku_board::Bitboard;
use monlib::{guarded_mut, json, panic_sig, Report};
use rand::rngs::StdRng;
use rand::seq::SliceRandom;
use rand::Rng;
use refchess::*;

use crate::adapter::*;
use crate::c01::move_kind;

#[derive(Default)]
pub struct Maps {
    pub key_to_hash: HashMap<PosKey, (u64, u64)>,
    pub hash_to_key: HashMap<u64, PosKey>,
    pub seen_twice: u64,
}

fn hashes(p: &Pos) -> Result<(u64, u64), String> {
    let bb = load(p)?;
    Ok((bb.calculate_zobrist_hash(), bb.calculate_zobrist_pawn_hash()))
}

/// record an observed (position, hash) pair; check (b) same key => same hash, (c) different key => different hash
pub fn observe(maps: &mut Maps, p: &Pos, h: (u64, u64), rep: &mut Report, how: &str) {
    let key = p.key();
    let fen = p.to_fen();
    match maps.key_to_hash.get(&key) {
        Some(&old) => {
            maps.seen_twice += 1;
            rep.count("same_key_observed_again");
            rep.distinct_hash(key.h64());
            if old != h {
                rep.violation("same-position-different-hash", format!("{} ({}) hashed {:x}/{:x}, earlier {:x}/{:x}", fen, how, h.0, h.1, old.0, old.1), json!({"kind":"c06","fen":fen}));
            }
        }
        None => {
            maps.key_to_hash.insert(key, h);
        }
    }
    match maps.hash_to_key.get(&h.0) {
        Some(k) if *k != key => {
            // count differing components
            let diff = (0..34).filter(|&i| k.0[i] != key.0[i]).count();
            if diff <= 1 {
                rep.violation("different-position-same-hash", format!("{} has the hash {:x} of a position differing in one component", fen, h.0), json!({"kind":"c06","fen":fen}));
            } else {
                rep.inconclusive("64-bit collision between unrelated positions");
            }
        }
        Some(_) => {}
        None => {
            maps.hash_to_key.insert(h.0, key);
        }
    }
}

pub fn check(p: &Pos, rep: &mut Report, rng: &mut StdRng, maps: &mut Maps) {
    let fen = p.to_fen();
    let replay = json!({"kind":"c06","fen":fen});
    let h0 = match guarded_mut(|| hashes(p)) {
        Err(pm) => { rep.violation(&format!("hash-{}", panic_sig(&pm)), format!("hash panicked in {}: {}", fen, pm), replay); return; }
        Ok(Err(e)) => { rep.violation("load-failed", e, replay); return; }
        Ok(Ok(h)) => h,
    };
    observe(maps, p, h0, rep, "visited");
    // (a) incremental = recomputed for every legal move
    for m in p.legal_moves() {
        rep.eval();
        let u = m.uci();
        let n = p.make(m);
        let r = guarded_mut(|| {
            let bb = load(p)?;
            let mv = match find_move(&bb, &u) { Some(mv) => mv, None => return Ok(None) };
            let (dx, dp) = Bitboard::zobrist_xor(mv);
            // the Move value the capture/promotion-only generator builds for the same move (what the
            // quiescence search feeds to zobrist_xor) must carry the same delta
            let mut bq = load(p)?;
            if let Some(q) = bq.generate_pseudo_legal_non_quiescent_moves().into_iter().find(|x| x.to_uci_string() == u) {
                if Bitboard::zobrist_xor(q) != (dx, dp) { return Err(format!("DELTA-MISMATCH capture-generator move {} carries another hash delta than the full generator's", u)); }
            }
            let hn = hashes(&n)?;
            // also the board's own successor, to tie the delta to make()
            let mut bb2 = load(p)?;
            bb2.make(mv);
            let hmade = (bb2.calculate_zobrist_hash(), bb2.calculate_zobrist_pawn_hash());
            // ... and back up, as the search does with the hash it keeps for the parent node
            bb2.unmake(mv);
            let hback = (bb2.calculate_zobrist_hash(), bb2.calculate_zobrist_pawn_hash());
            Ok::<_, String>(Some((dx, dp, hn, hmade, hback)))
        });
        let kind = move_kind(p, &u);
        match r {
            Err(pm) => rep.violation(&format!("xor-{}", panic_sig(&pm)), format!("zobrist_xor({}) panicked in {}: {}", u, fen, pm), json!({"kind":"c06","fen":fen,"move":u})),
            Ok(Err(e)) if e.starts_with("DELTA-MISMATCH") => rep.violation(&format!("capture-generator-move-delta:{}", kind), format!("{} in {}", e, fen), json!({"kind":"c06","fen":fen,"move":u})),
            Ok(Err(e)) => rep.violation("load-failed", e, json!({"kind":"c06","fen":fen,"move":u})),
            Ok(Ok(None)) => rep.inconclusive("legal move not offered by the generator (C01 matter)"),
            Ok(Ok(Some((dx, dp, hn, hmade, hback)))) => {
                if hback != h0 {
                    rep.violation(&format!("hash-after-make-unmake-differs:{}", kind), format!("{} + {} and back: the board hashes {:x}/{:x}, before {:x}/{:x}", fen, u, hback.0, hback.1, h0.0, h0.1), json!({"kind":"c06","fen":fen,"move":u}));
                }
                if h0.0 ^ dx != hn.0 {
                    rep.violation(&format!("incremental-full-hash:{}", kind), format!("{} + {}: hash^delta = {:x}, recomputed {:x}", fen, u, h0.0 ^ dx, hn.0), json!({"kind":"c06","fen":fen,"move":u}));
                }
                if h0.1 ^ dp != hn.1 {
                    rep.violation(&format!("incremental-pawn-hash:{}", kind), format!("{} + {}: pawnhash^delta = {:x}, recomputed {:x}", fen, u, h0.1 ^ dp, hn.1), json!({"kind":"c06","fen":fen,"move":u}));
                }
                if hmade != hn {
                    rep.violation(&format!("hash-after-make-differs-from-fen-load:{}", kind), format!("{} + {}: board after make hashes {:x}, same position loaded from FEN {:x}", fen, u, hmade.0, hn.0), json!({"kind":"c06","fen":fen,"move":u}));
                }
                rep.count(&format!("delta_kind_{}", kind));
                if kind == "promotion" && p.is_capture(m) { rep.count("delta_promotion_with_capture"); }
                if n.castle != p.castle { rep.count("delta_rights_change"); }
            }
        }
    }
    // (d) single-component variants
    for (what, v) in variants(p, rng) {
        rep.eval();
        if !v.is_legal_position() { continue; }
        match guarded_mut(|| hashes(&v)) {
            Ok(Ok(hv)) => {
                rep.count(&format!("variant_{}", what));
                rep.distinct_hash(monlib::mix(p.key().h64(), v.key().h64()));
                if hv.0 == h0.0 {
                    rep.violation(&format!("variant-same-hash:{}", what), format!("{} and {} differ in {} only but hash identically ({:x})", fen, v.to_fen(), what, hv.0), json!({"kind":"c06-variant","fen":fen,"variant":v.to_fen()}));
                }
                observe(maps, &v, hv, rep, "variant");
            }
            Ok(Err(e)) => rep.violation("load-failed", e, json!({"kind":"c06","fen":v.to_fen()})),
            Err(pm) => rep.violation(&format!("hash-{}", panic_sig(&pm)), format!("hash panicked in {}: {}", v.to_fen(), pm), json!({"kind":"c06","fen":v.to_fen()})),
        }
    }
    // clock variants hash identically (key equal by construction)
    if rng.gen_range(0..4) == 0 {
        let mut v = p.clone();
        v.half = if p.ep.is_some() { 0 } else { rng.gen_range(0..200) };
        v.full = rng.gen_range(1..3000);
        if let Ok(Ok(hv)) = guarded_mut(|| hashes(&v)) {
            rep.eval();
            rep.count("clock_variants");
            observe(maps, &v, hv, rep, "clock variant");
        }
    }
    // transpositions: two independent moves pairs played in both orders
    if rng.gen_range(0..3) == 0 {
        transpose(p, rep, rng, maps);
    }
    if rep.samples.len() < 6 && rng.gen_range(0..300) == 0 {
        rep.sample(json!({"fen": fen, "hash": format!("{:016x}", h0.0), "pawn_hash": format!("{:016x}", h0.1)}));
    }
}

fn transpose(p: &Pos, rep: &mut Report, rng: &mut StdRng, maps: &mut Maps) {
    // a1 b1 a2 b2  vs  a2 b1 a1 b2 (own moves swapped) and a1 b2 a2 b1 (opponent's swapped)
    let l1 = p.legal_moves();
    if l1.len() < 2 { return; }
    for _ in 0..6 {
        let a1 = *l1.choose(rng).unwrap();
        let a2 = *l1.choose(rng).unwrap();
        if a1 == a2 || a1.from == a2.from { continue; }
        let p1 = p.make(a1);
        let lb = p1.legal_moves();
        if lb.len() < 2 { continue; }
        let b1 = *lb.choose(rng).unwrap();
        let b2 = *lb.choose(rng).unwrap();
        if b1 == b2 || b1.from == b2.from { continue; }
        let play = |order: [Mv; 4]| -> Option<Pos> {
            let mut c = p.clone();
            for m in order {
                if !c.is_legal(m) { return None; }
                c = c.make(m);
            }
            Some(c)
        };
        let x = play([a1, b1, a2, b2]);
        let y = play([a2, b2, a1, b1]);
        let z = play([a2, b1, a1, b2]);
        let mut ends: Vec<Pos> = [x, y, z].into_iter().flatten().collect();
        if ends.len() < 2 { continue; }
        let first = ends.remove(0);
        for e in ends {
            if e.key() == first.key() {
                if let (Ok(Ok(h1)), Ok(Ok(h2))) = (guarded_mut(|| hashes(&first)), guarded_mut(|| hashes(&e))) {
                    rep.eval();
                    rep.count("transpositions_checked");
                    rep.distinct_hash(first.key().h64());
                    if h1 != h2 {
                        rep.violation("transposition-different-hash", format!("{} reached by two move orders hashes {:x} and {:x}", first.to_fen(), h1.0, h2.0), json!({"kind":"c06","fen":first.to_fen()}));
                    }
                    observe(maps, &first, h1, rep, "transposition");
                }
            }
        }
        return;
    }
}

/// positions differing from `p` in exactly one hash-relevant component
pub fn variants(p: &Pos, rng: &mut StdRng) -> Vec<(&'static str, Pos)> {
    let mut out = Vec::new();
    // side to move (only if no e.p. square, which is side-specific)
    if p.ep.is_none() {
        let mut v = p.clone();
        v.wtm = !v.wtm;
        out.push(("side", v));
    }
    // castling rights toggled where king and rook are at home
    for (i, (ks, rs, k, r)) in [(4u8, 7u8, K, R), (4, 0, K, R), (60, 63, -K, -R), (60, 56, -K, -R)].iter().enumerate() {
        if p.b[*ks as usize] == *k && p.b[*rs as usize] == *r {
            let mut v = p.clone();
            v.castle[i] = !v.castle[i];
            out.push((["right-K", "right-Q", "right-k", "right-q"][i], v));
        }
    }
    // e.p. file cleared / set / moved
    if p.ep.is_some() {
        let mut v = p.clone();
        v.ep = None;
        out.push(("ep-cleared", v));
    }
    for f in 0..8 {
        let (pr, er, mid, own) = if p.wtm { (4, 5, 6, -P) } else { (3, 2, 1, P) };
        if p.at(f, pr) == own && p.at(f, er) == 0 && p.at(f, mid) == 0 && p.ep != Some(sq(f, er)) {
            let mut v = p.clone();
            v.ep = Some(sq(f, er));
            out.push((if p.ep.is_some() { "ep-moved" } else { "ep-set" }, v));
        }
    }
    // one piece removed / moved / recoloured / retyped
    let occupied: Vec<u8> = (0..64u8).filter(|&s| p.b[s as usize] != 0 && p.b[s as usize].abs() != K).collect();
    if let Some(&s) = occupied.choose(rng) {
        let strip = |v: &mut Pos| { v.ep = None; };
        let mut v = p.clone();
        v.b[s as usize] = 0;
        fix_rights(&mut v);
        if v.castle == p.castle && p.ep.is_none() { strip(&mut v); out.push(("piece-removed", v)); }
        let mut v = p.clone();
        v.b[s as usize] = -p.b[s as usize];
        fix_rights(&mut v);
        if v.castle == p.castle && p.ep.is_none() { out.push(("piece-recoloured", v)); }
        let mut v = p.clone();
        let kinds = [P, N, B, R, Q];
        let nk = *kinds.iter().filter(|&&k| k != p.b[s as usize].abs()).collect::<Vec<_>>().choose(rng).unwrap();
        if !(*nk == P && (rank_of(s) == 0 || rank_of(s) == 7)) {
            v.b[s as usize] = nk * p.b[s as usize].signum();
            fix_rights(&mut v);
            if v.castle == p.castle && p.ep.is_none() { out.push(("piece-retyped", v)); }
        }
        let empties: Vec<u8> = (0..64u8).filter(|&t| p.b[t as usize] == 0).collect();
        if let Some(&t) = empties.choose(rng) {
            let pc = p.b[s as usize];
            if !(pc.abs() == P && (rank_of(t) == 0 || rank_of(t) == 7)) {
                let mut v = p.clone();
                v.b[s as usize] = 0;
                v.b[t as usize] = pc;
                fix_rights(&mut v);
                if v.castle == p.castle && p.ep.is_none() { out.push(("piece-moved", v)); }
            }
        }
    }
    // king moved
    for white in [true, false] {
        if let Some(k) = p.king_sq(white) {
            let empties: Vec<u8> = (0..64u8).filter(|&t| p.b[t as usize] == 0).collect();
            if let Some(&t) = empties.choose(rng) {
                let mut v = p.clone();
                v.b[t as usize] = v.b[k as usize];
                v.b[k as usize] = 0;
                fix_rights(&mut v);
                if v.castle == p.castle && p.ep.is_none() { out.push(("king-moved", v)); }
            }
        }
    }
    out
}

fn fix_rights(_v: &mut Pos) {
    // variants that would invalidate a castling right are filtered by the caller through
    // is_legal_position (rights need king and rook at home); nothing to do here.
}

/// The board carried along a walk is used the way a search node uses it: every pseudo-legal move
/// is made (child hash = parent hash ^ delta, compared with the recomputed child hash when the
/// child is a valid position) and unmade; afterwards the board must hash like the parent again,
/// because the parent's incrementally kept hash is what the search goes on using.
pub fn node_round_trip(p: &Pos, bb: &mut Bitboard, rep: &mut Report) {
    let fen = p.to_fen();
    let r = guarded_mut(|| {
        let h = (bb.calculate_zobrist_hash(), bb.calculate_zobrist_pawn_hash());
        let mut bad_child: Option<(String, u64, u64)> = None;
        let mut n = 0u64;
        for mv in bb.generate_pseudo_legal_moves() {
            let (dx, dp) = Bitboard::zobrist_xor(mv);
            bb.make(mv);
            if bb.is_valid() {
                n += 1;
                let hc = (bb.calculate_zobrist_hash(), bb.calculate_zobrist_pawn_hash());
                if (h.0 ^ dx, h.1 ^ dp) != hc && bad_child.is_none() {
                    bad_child = Some((mv.to_uci_string(), h.0 ^ dx, hc.0));
                }
            }
            bb.unmake(mv);
        }
        let back = (bb.calculate_zobrist_hash(), bb.calculate_zobrist_pawn_hash());
        (h, back, bad_child, n)
    });
    match r {
        Err(pm) => rep.violation(&format!("node-round-trip-{}", panic_sig(&pm)), format!("panicked in {}: {}", fen, pm), json!({"kind":"c06","fen":fen})),
        Ok((h, back, bad_child, n)) => {
            rep.count("node_round_trips");
            rep.add("node_round_trip_children", n);
            if let Some((u, inc, rec)) = bad_child {
                rep.violation("node-child-incremental-hash", format!("{} + {} on the carried board: parent^delta {:x}, recomputed {:x}", fen, u, inc, rec), json!({"kind":"c06","fen":fen,"move":u}));
            }
            if back != h {
                rep.violation("node-hash-changed-after-visiting-children", format!("{}: after making and unmaking every pseudo-legal move the board hashes {:x}/{:x}, before {:x}/{:x}", fen, back.0, back.1, h.0, h.1), json!({"kind":"c06","fen":fen}));
            }
        }
    }
}

/// The key table behind the hash, observed through the hash itself: the effect of every single
/// component (each piece on each square, side to move, each castling right, each en-passant file)
/// is the xor-difference of two hashes that differ in that component only. Every effect must be
/// non-zero (changing the component changes the hash) and no two effects may coincide — otherwise
/// the two positions P+a and P+b hash identically for EVERY P, a systematic collision, not a
/// 64-bit accident. Done once per run (about 800 hash computations).
pub fn key_table(rep: &mut Report) {
    let h = |fen: &str| -> Option<(u64, u64)> {
        match guarded_mut(|| load_fen(fen).map(|bb| (bb.calculate_zobrist_hash(), bb.calculate_zobrist_pawn_hash()))) {
            Ok(Ok(x)) => Some(x),
            _ => None,
        }
    };
    let empty = "8/8/8/8/8/8/8/8 w - - 0 1";
    let h0 = match h(empty) { Some(x) => x, None => { rep.inconclusive("the empty board could not be hashed; key table not derived"); return; } };
    let mut keys: Vec<(String, u64)> = Vec::new();
    let letters = ['P', 'N', 'B', 'R', 'Q', 'K', 'p', 'n', 'b', 'r', 'q', 'k'];
    for pc in letters {
        for s in 0..64u8 {
            let (f, r) = (file_of(s), rank_of(s));
            if (pc == 'P' || pc == 'p') && (r == 0 || r == 7) { continue; }
            // FEN ranks from 8 down to 1
            let mut ranks = Vec::new();
            for rr in (0..8).rev() {
                if rr == r {
                    let mut t = String::new();
                    if f > 0 { t.push_str(&f.to_string()); }
                    t.push(pc);
                    if f < 7 { t.push_str(&(7 - f).to_string()); }
                    ranks.push(t);
                } else { ranks.push("8".to_string()); }
            }
            let fen = format!("{} w - - 0 1", ranks.join("/"));
            match h(&fen) { Some(x) => keys.push((format!("{} on {}", pc, sq_name(s)), x.0 ^ h0.0)), None => { rep.inconclusive("a single-piece board could not be hashed; key table incomplete"); return; } }
        }
    }
    if let Some(x) = h("8/8/8/8/8/8/8/8 b - - 0 1") { keys.push(("side to move".into(), x.0 ^ h0.0)); }
    // castling rights on a board that carries kings and rooks at home
    let home = |c: &str| format!("r3k2r/8/8/8/8/8/8/R3K2R w {} - 0 1", c);
    if let Some(all) = h(&home("KQkq")) {
        for (name, without) in [("right K", "Qkq"), ("right Q", "Kkq"), ("right k", "KQq"), ("right q", "KQk")] {
            if let Some(x) = h(&home(without)) { keys.push((name.into(), x.0 ^ all.0)); }
        }
    }
    // en-passant files (both colours' target ranks must agree per file as the hash depends on the file only)
    for f in 0..8 {
        let file = (b'a' + f as u8) as char;
        let w = h(&format!("8/8/8/8/8/8/8/8 w - {}6 0 1", file));
        let b = h(&format!("8/8/8/8/8/8/8/8 b - {}3 0 1", file));
        let hb = h("8/8/8/8/8/8/8/8 b - - 0 1");
        if let Some(w) = w { keys.push((format!("en passant file {}", file), w.0 ^ h0.0)); }
        if let (Some(w), Some(b), Some(hb)) = (w, b, hb) {
            rep.eval();
            if (w.0 ^ h0.0) != (b.0 ^ hb.0) {
                rep.violation("en-passant-key-depends-on-more-than-the-file", format!("en passant on {}6 changes the hash by {:x}, on {}3 by {:x}", file, w.0 ^ h0.0, file, b.0 ^ hb.0), json!({"kind":"c06-keys"}));
            }
        }
    }
    rep.add("hash_keys_derived", keys.len() as u64);
    let mut seen: HashMap<u64, String> = HashMap::new();
    for (name, k) in &keys {
        rep.eval();
        if *k == 0 {
            rep.violation(&format!("key-zero:{}", name.split(' ').next().unwrap_or("")), format!("{} does not change the hash", name), json!({"kind":"c06-keys"}));
            continue;
        }
        if let Some(other) = seen.get(k) {
            let class = |n: &str| if n.starts_with("en passant") { "ep" } else if n.starts_with("right") { "castle" } else if n.starts_with("side") { "side" } else { "piece" };
            rep.violation(&format!("key-collision:{}-vs-{}", class(other), class(name)), format!("{} and {} change the hash by the same amount {:x}: the two positions P+({}) and P+({}) hash identically for every P", other, name, k, other, name), json!({"kind":"c06-keys"}));
        } else {
            seen.insert(*k, name.clone());
        }
        rep.distinct_hash(*k);
    }
}
