//! C05 — check, checkmate and stalemate are recognised exactly.

use inkayaku_core::constants::Color;
use inkayaku_engine_core::verif as ehook;
use monlib::{guarded_mut, json, panic_sig, Report};
use rand::rngs::StdRng;
use rand::Rng;
use refchess::*;

use crate::adapter::*;

pub fn check(p: &Pos, rep: &mut Report, rng: &mut StdRng) {
    let fen = p.to_fen();
    let replay = json!({"kind":"c05","fen":fen});
    rep.eval();
    let white = p.wtm;
    let ref_cur = p.in_check(white);
    let ref_w = p.in_check(true);
    let ref_b = p.in_check(false);
    let ref_pseudo = p.pseudo_moves();
    let r = guarded_mut(|| {
        let mut bb = load(p)?;
        let cur = bb.is_current_in_check();
        let w = bb.is_in_check(&Color::WHITE);
        let b = bb.is_in_check(&Color::BLACK);
        let legal_list: Vec<String> = bb.generate_legal_moves().iter().map(|m| m.to_uci_string()).collect();
        let empty = legal_list.is_empty();
        let mut bb = load(p)?;
        let term_eval = ehook::static_eval(&bb, false);
        let mut after = Vec::new();
        for m in bb.generate_pseudo_legal_moves() {
            bb.make(m);
            let (valid, next_check) = (bb.is_valid(), bb.is_current_in_check());
            bb.unmake(m);
            // the packaged form of the same question
            let packaged = bb.is_move_legal(m);
            after.push((m.to_uci_string(), valid, next_check, packaged));
        }
        let pseudo = bb.generate_pseudo_legal_moves();
        let any_legal = bb.is_any_move_legal(&pseudo);
        Ok::<_, String>((cur, w, b, empty, term_eval, after, any_legal, legal_list))
    });
    let (cur, w, b, empty, term_eval, after, any_legal, legal_list) = match r {
        Err(pm) => { rep.violation(&format!("check-{}", panic_sig(&pm)), format!("check detection panicked in {}: {}", fen, pm), replay); return; }
        Ok(Err(e)) => { rep.violation("load-failed", e, replay); return; }
        Ok(Ok(x)) => x,
    };
    let kinds = attacker_kinds(p, white);
    if cur != ref_cur {
        rep.violation(&format!("is_current_in_check:{}:by-{}", if ref_cur { "missed" } else { "phantom" }, kinds), format!("is_current_in_check()={} but rules say {} in {}", cur, ref_cur, fen), replay.clone());
    }
    if w != ref_w {
        rep.violation(&format!("is_in_check-white:{}", if ref_w { "missed" } else { "phantom" }), format!("is_in_check(WHITE)={} but rules say {} in {}", w, ref_w, fen), replay.clone());
    }
    if b != ref_b {
        rep.violation(&format!("is_in_check-black:{}", if ref_b { "missed" } else { "phantom" }), format!("is_in_check(BLACK)={} but rules say {} in {}", b, ref_b, fen), replay.clone());
    }
    // the legal-move list is the packaged form of "pseudo-legal and valid afterwards": exactly the
    // moves after which the rules see the mover's king unattacked, each once
    {
        let want: std::collections::BTreeSet<String> = ref_pseudo.iter().filter(|m| !p.make(**m).in_check(white)).map(|m| m.uci()).collect();
        let got: std::collections::BTreeSet<String> = legal_list.iter().cloned().collect();
        for u in want.difference(&got) {
            rep.violation(&format!("legal-list-lacks-a-valid-move:{}", crate::c01::move_kind(p, u)), format!("generate_legal_moves() lacks {} in {} although the position after it is valid", u, fen), json!({"kind":"c05","fen":fen,"move":u}));
        }
        for u in got.difference(&want) {
            rep.violation(&format!("legal-list-has-an-invalid-move:{}", crate::c01::move_kind(p, u)), format!("generate_legal_moves() offers {} in {} although it leaves the own king attacked (or is no move)", u, fen), json!({"kind":"c05","fen":fen,"move":u}));
        }
        if got.len() != legal_list.len() { rep.violation("legal-list-duplicate", format!("generate_legal_moves() lists a move twice in {}", fen), replay.clone()); }
    }
    let ref_empty = p.legal_moves().is_empty();
    if empty != ref_empty {
        rep.violation("no-legal-moves-mismatch", format!("generate_legal_moves().is_empty()={} but rules say {} in {}", empty, ref_empty, fen), replay.clone());
    }
    if any_legal == ref_empty {
        rep.violation("is_any_move_legal-mismatch", format!("is_any_move_legal(all pseudo-legal moves)={} but the rules say a legal move exists: {} in {}", any_legal, !ref_empty, fen), replay.clone());
    }
    if ref_empty {
        let mate = ref_cur;
        rep.count(if mate { if white { "mate_white_to_move" } else { "mate_black_to_move" } } else if white { "stalemate_white_to_move" } else { "stalemate_black_to_move" });
        // classification as the board reports it
        if empty && (cur != mate) {
            rep.violation("mate-stalemate-confused", format!("move-less position {} classified in_check={} but rules say mate={}", fen, cur, mate), replay.clone());
        }
        // consumer level: the evaluator's terminal branch
        let is_mate_score = term_eval.abs() > (1 << 23);
        if mate {
            let losing_for_mover = if white { term_eval < 0 } else { term_eval > 0 };
            if !is_mate_score || !losing_for_mover {
                rep.violation("terminal-eval-mate", format!("evaluator values checkmate {} as {}", fen, term_eval), replay.clone());
            }
        } else if term_eval != 0 {
            rep.violation("terminal-eval-stalemate", format!("evaluator values stalemate {} as {}", fen, term_eval), replay.clone());
        }
        rep.distinct_hash(p.key().h64());
    }
    if ref_cur {
        rep.count(&format!("check_by_{}", kinds));
        rep.distinct_hash(p.key().h64());
    }
    // validity after every pseudo-legal move
    for (u, valid, next_in_check, packaged) in after {
        rep.eval();
        // A move the reference generator does not know (whether it may be generated at all is C01's
        // matter) is still a position "reached by playing a pseudo-legal move": it is applied
        // physically and the validity / check reports are held against the rules.
        let (m, known) = match Mv::from_uci(&u) {
            Some(m) if ref_pseudo.contains(&m) => (m, true),
            Some(m) if p.b[m.from as usize] != 0 && (p.b[m.from as usize] > 0) == white && (p.b[m.to as usize] == 0 || (p.b[m.to as usize] > 0) != white) && p.b[m.to as usize].abs() != K => {
                rep.count("pseudo_legal_moves_unknown_to_the_reference");
                (m, false)
            }
            _ => { rep.inconclusive("pseudo-legal move unknown to the reference and not applicable physically (C01 matter)"); continue; }
        };
        let n = p.make(m);
        let ref_valid = !n.in_check(white);
        let packaged = if known { packaged } else { ref_valid };
        if valid != ref_valid {
            rep.violation(&format!("is_valid:{}", if ref_valid { "rejects-legal" } else { "accepts-illegal" }), format!("after {} in {}: is_valid()={} rules {}", u, fen, valid, ref_valid), json!({"kind":"c05","fen":fen,"move":u}));
        }
        if packaged != ref_valid {
            rep.violation(&format!("is_move_legal:{}:{}", if ref_valid { "rejects-legal" } else { "accepts-illegal" }, crate::c01::move_kind(p, &u)), format!("is_move_legal({}) in {} = {} rules {}", u, fen, packaged, ref_valid), json!({"kind":"c05","fen":fen,"move":u}));
        }
        if !ref_valid { rep.count("positions_after_illegal_pseudo_legal_move"); }
        let ref_next = n.in_check(n.wtm);
        if next_in_check != ref_next {
            rep.violation(&format!("is_current_in_check-after-move:{}", if ref_next { "missed" } else { "phantom" }), format!("after {} in {}: is_current_in_check()={} rules {}", u, fen, next_in_check, ref_next), json!({"kind":"c05","fen":fen,"move":u}));
        }
        if ref_next { rep.count("checks_given"); }
    }
    // consumer level: the SAN writer's suffix is the board's public mate / check / stalemate report
    // for the position after a move: '#' exactly for checkmate, '+' exactly for check that is not
    // mate, nothing otherwise (a stalemating move in particular carries no suffix)
    let mut sfx: Vec<(String, &'static str)> = Vec::new();
    for m in p.legal_moves() {
        let n = p.make(m);
        let gives_check = n.in_check(n.wtm);
        let moveless = n.legal_moves().is_empty();
        if gives_check || moveless || rng.gen_range(0..8) == 0 {
            sfx.push((m.uci(), if gives_check && moveless { "#" } else if gives_check { "+" } else if moveless { "stalemate" } else { "" }));
        }
    }
    if !sfx.is_empty() {
        let r = guarded_mut(|| {
            let mut bb = load(p)?;
            Ok::<_, String>(sfx.iter().map(|(u, _)| bb.uci_to_pgn(u).map_err(|e| format!("{:?}", e))).collect::<Vec<_>>())
        });
        match r {
            Err(pm) => rep.violation(&format!("san-suffix-{}", panic_sig(&pm)), format!("uci_to_pgn panicked in {}: {}", fen, pm), replay.clone()),
            Ok(Err(e)) => rep.violation("load-failed", e, replay.clone()),
            Ok(Ok(v)) => {
                for ((u, want), got) in sfx.iter().zip(v) {
                    rep.eval();
                    rep.count(&format!("san_suffix_{}", match *want { "#" => "mate", "+" => "check", "stalemate" => "stalemate", _ => "none" }));
                    match got {
                        Err(e) => rep.violation("san-suffix-legal-move-refused", format!("uci_to_pgn({}) in {}: {}", u, fen, e), json!({"kind":"c05","fen":fen,"move":u})),
                        Ok(san) => {
                            let got_sfx = if san.ends_with('#') { "#" } else if san.ends_with('+') { "+" } else { "" };
                            let want_sfx = if *want == "stalemate" { "" } else { *want };
                            if got_sfx != want_sfx {
                                rep.violation(&format!("san-suffix:{}-written-as-{}", match *want { "#" => "mate", "+" => "check", "stalemate" => "stalemate", _ => "quiet" }, match got_sfx { "#" => "mate", "+" => "check", _ => "quiet" }), format!("uci_to_pgn({}) = {} in {}", u, san, fen), json!({"kind":"c05","fen":fen,"move":u}));
                            }
                            if *want == "stalemate" || *want == "#" { rep.distinct_hash(monlib::mix(p.key().h64(), monlib::fnv(u.as_bytes()))); }
                        }
                    }
                }
            }
        }
    }
    if rep.samples.len() < 6 && (ref_empty || (ref_cur && rng.gen_range(0..40) == 0)) {
        rep.sample(json!({"fen": fen, "in_check": ref_cur, "no_legal_moves": ref_empty, "checkers": kinds}));
    }
}

/// e.g. "Q+N": kinds of pieces attacking the king of `white`
pub fn attacker_kinds(p: &Pos, white: bool) -> String {
    let k = match p.king_sq(white) { Some(k) => k, None => return "-".into() };
    let mut v: Vec<char> = Vec::new();
    for s in 0..64u8 {
        let pc = p.b[s as usize];
        if pc != 0 && (pc > 0) != white && p.piece_attacks(s, k) {
            v.push(match pc.abs() { P => 'P', N => 'N', B => 'B', R => 'R', Q => 'Q', _ => 'K' });
        }
    }
    v.sort();
    if v.is_empty() { "-".into() } else { v.iter().map(|c| c.to_string()).collect::<Vec<_>>().join("+") }
}
