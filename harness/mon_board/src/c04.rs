//! C04 — precomputed attack tables equal ray/step attacks; every lookup stays inside its table.
//!
//! Complete enumeration: for every square, all subsets of the reference's full ray set of that
//! square (edge squares included), each once as-is and once OR-ed with a random pattern on the
//! non-ray squares. The reference ray walk works on (file, rank) pairs with its own loops.

use inkayaku_board::verif as hook;
use monlib::{json, Args, Report};
use rand::Rng;
use refchess::gen;

/// engine numbering: shift 0 = a8, file = s % 8, rank index (from the top) = s / 8
fn fr(s: u32) -> (i32, i32) {
    ((s % 8) as i32, (s / 8) as i32)
}
fn bit(f: i32, r: i32) -> u64 {
    1u64 << (r * 8 + f)
}
fn on(f: i32, r: i32) -> bool {
    (0..8).contains(&f) && (0..8).contains(&r)
}

const ROOK_D: [(i32, i32); 4] = [(1, 0), (-1, 0), (0, 1), (0, -1)];
const BISHOP_D: [(i32, i32); 4] = [(1, 1), (1, -1), (-1, 1), (-1, -1)];

fn ray_squares(s: u32, dirs: &[(i32, i32); 4]) -> Vec<u32> {
    let (f, r) = fr(s);
    let mut v = Vec::new();
    for (df, dr) in dirs {
        let (mut x, mut y) = (f + df, r + dr);
        while on(x, y) {
            v.push((y * 8 + x) as u32);
            x += df;
            y += dr;
        }
    }
    v
}

fn slide(s: u32, occ: u64, dirs: &[(i32, i32); 4]) -> u64 {
    let (f, r) = fr(s);
    let mut a = 0u64;
    for (df, dr) in dirs {
        let (mut x, mut y) = (f + df, r + dr);
        while on(x, y) {
            a |= bit(x, y);
            if occ & bit(x, y) != 0 {
                break;
            }
            x += df;
            y += dr;
        }
    }
    a
}

fn steps(s: u32, deltas: &[(i32, i32)]) -> u64 {
    let (f, r) = fr(s);
    let mut a = 0u64;
    for (df, dr) in deltas {
        if on(f + df, r + dr) {
            a |= bit(f + df, r + dr);
        }
    }
    a
}

pub fn run(args: &Args, rep: &mut Report) {
    let mut rng = gen::rng(args.seed, args.shard, 4);
    // `--mask-only 1`: restrict to subsets of the table's own mask (Miri lane, time)
    let mask_only = args.get_u64("mask-only", 0) == 1;
    let sq_lo = args.get_u64("sq-lo", 0) as u32;
    let sq_hi = args.get_u64("sq-hi", 64) as u32;
    let mut lookups = 0u64;
    for s in sq_lo..sq_hi {
        if (s as u64) % args.nshards != args.shard {
            continue;
        }
        for (name, dirs) in [("rook", &ROOK_D), ("bishop", &BISHOP_D)] {
            let is_rook = name == "rook";
            let mask = if is_rook { hook::rook_mask(s) } else { hook::bishop_mask(s) };
            let len = if is_rook { hook::rook_table_len(s) } else { hook::bishop_table_len(s) };
            let rays: Vec<u32> = if mask_only { (0..64).filter(|b| mask >> b & 1 == 1).collect() } else { ray_squares(s, dirs) };
            let full: u64 = ray_squares(s, dirs).iter().fold(0, |a, b| a | 1u64 << b);
            // the stored mask must be a subset of the ray squares (irrelevant squares must not matter)
            if mask & !full != 0 {
                rep.violation(&format!("{}-mask-too-wide", name), format!("{} mask of square {} contains non-ray squares: {:x}", name, s, mask & !full), json!({"kind":"c04","piece":name,"square":s,"occ":"0"}));
            }
            let n = rays.len();
            rep.add(&format!("{}_ray_subsets", name), 1u64 << n);
            for sub in 0..(1u64 << n) {
                let mut occ = 0u64;
                for (i, b) in rays.iter().enumerate() {
                    if sub >> i & 1 == 1 {
                        occ |= 1u64 << b;
                    }
                }
                let noise: u64 = rng.gen::<u64>() & !full & !(1u64 << s);
                let variants: &[u64] = if mask_only { &[occ] } else { &[occ, occ | noise | (1u64 << s)] };
                for &o in variants {
                    lookups += 1;
                    let idx = if is_rook { hook::rook_index(s, o) } else { hook::bishop_index(s, o) };
                    if idx >= len {
                        rep.violation(&format!("{}-index-out-of-range", name), format!("{} lookup square {} occ {:x}: index {} >= table length {}", name, s, o, idx, len), json!({"kind":"c04","piece":name,"square":s,"occ":format!("{:x}", o)}));
                        continue; // do not perform the out-of-bounds read ourselves
                    }
                    let got = if is_rook { hook::rook_attacks(s, o) } else { hook::bishop_attacks(s, o) };
                    let want = slide(s, o, dirs);
                    if got != want {
                        rep.violation(&format!("{}-attack-set-wrong", name), format!("{} attacks square {} occ {:x}: table {:x}, ray walk {:x}", name, s, o, got, want), json!({"kind":"c04","piece":name,"square":s,"occ":format!("{:x}", o)}));
                    }
                }
                if occ != 0 && !mask_only {
                    // distinct (square, relevant occupancy) classes with at least one blocker
                    rep.distinct_hash(monlib::mix(monlib::mix(s as u64, is_rook as u64), occ & mask));
                }
            }
        }
        let king: Vec<(i32, i32)> = vec![(1, 0), (1, 1), (0, 1), (-1, 1), (-1, 0), (-1, -1), (0, -1), (1, -1)];
        let knight: Vec<(i32, i32)> = vec![(1, 2), (2, 1), (2, -1), (1, -2), (-1, -2), (-2, -1), (-2, 1), (-1, 2)];
        // rank index grows downwards (towards rank 1): white pawns attack towards smaller index
        let wp: Vec<(i32, i32)> = vec![(-1, -1), (1, -1)];
        let bp: Vec<(i32, i32)> = vec![(-1, 1), (1, 1)];
        for (name, got, want) in [
            ("king", hook::king_attacks(s), steps(s, &king)),
            ("knight", hook::knight_attacks(s), steps(s, &knight)),
            ("white_pawn", hook::white_pawn_attacks(s), steps(s, &wp)),
            ("black_pawn", hook::black_pawn_attacks(s), steps(s, &bp)),
        ] {
            lookups += 1;
            rep.count("leaper_entries");
            if got != want {
                rep.violation(&format!("{}-table-wrong", name), format!("{} table square {}: {:x}, step pattern {:x}", name, s, got, want), json!({"kind":"c04","piece":name,"square":s,"occ":"0"}));
            }
            rep.distinct_hash(monlib::mix(monlib::fnv(name.as_bytes()), s as u64));
        }
        rep.count("squares");
    }
    rep.evaluations = lookups;
    rep.sample(json!({"piece":"rook","square":"d4 (shift 35)","occupancy":"d6,f4","table": format!("{:x}", hook::rook_attacks(35, 1u64 << 19 | 1u64 << 37)), "ray_walk": format!("{:x}", slide(35, 1u64 << 19 | 1u64 << 37, &ROOK_D))}));
    rep.sample(json!({"piece":"bishop","square":"a1 (shift 56)","occupancy":"c3","table": format!("{:x}", hook::bishop_attacks(56, 1u64 << 42)), "ray_walk": format!("{:x}", slide(56, 1u64 << 42, &BISHOP_D))}));
    rep.extra.insert("exhaustive".into(), json!(!mask_only && sq_lo == 0 && sq_hi == 64));
}

pub fn replay(case: &monlib::Value, rep: &mut Report) {
    let s = case["square"].as_u64().unwrap_or(0) as u32;
    let occ = u64::from_str_radix(case["occ"].as_str().unwrap_or("0"), 16).unwrap_or(0);
    let name = case["piece"].as_str().unwrap_or("rook");
    match name {
        "rook" | "bishop" => {
            let is_rook = name == "rook";
            let dirs = if is_rook { &ROOK_D } else { &BISHOP_D };
            let (idx, len) = if is_rook { (hook::rook_index(s, occ), hook::rook_table_len(s)) } else { (hook::bishop_index(s, occ), hook::bishop_table_len(s)) };
            if idx >= len {
                rep.violation(&format!("{}-index-out-of-range", name), format!("index {} >= {}", idx, len), case.clone());
                return;
            }
            let got = if is_rook { hook::rook_attacks(s, occ) } else { hook::bishop_attacks(s, occ) };
            if got != slide(s, occ, dirs) {
                rep.violation(&format!("{}-attack-set-wrong", name), format!("table {:x} ray walk {:x}", got, slide(s, occ, dirs)), case.clone());
            }
        }
        _ => {
            let mut a = Args::parse();
            a.rest.insert("sq-lo".into(), s.to_string());
            a.rest.insert("sq-hi".into(), (s + 1).to_string());
            a.nshards = 1;
            a.shard = 0;
            run(&a, rep);
        }
    }
}
