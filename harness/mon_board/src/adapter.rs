//! Glue between the reference model and the code under test (public API of inkayaku_board only).

use std::str::FromStr;

use inkayaku_board::constants::{BISHOP, KING, KNIGHT, PAWN, QUEEN, ROOK};
use inkayaku_board::{Bitboard, Move};
use inkayaku_core::fen::Fen;
use refchess::Pos;

pub const PIECES: [u64; 6] = [PAWN, KNIGHT, BISHOP, ROOK, QUEEN, KING];

/// Load a reference position into the code under test through its ordinary FEN path.
pub fn load(p: &Pos) -> Result<Bitboard, String> {
    let f = p.to_fen();
    match monlib::guarded(|| Bitboard::from_fen_string(&f)) {
        Ok(Ok(b)) => Ok(b),
        Ok(Err(e)) => Err(format!("from_fen_string({}) = Err({:?})", f, e)),
        Err(pm) => Err(format!("from_fen_string({}) panicked: {}", f, pm)),
    }
}

pub fn load_fen(f: &str) -> Result<Bitboard, String> {
    match monlib::guarded(|| Bitboard::from_fen_string(f)) {
        Ok(Ok(b)) => Ok(b),
        Ok(Err(e)) => Err(format!("from_fen_string({}) = Err({:?})", f, e)),
        Err(pm) => Err(format!("from_fen_string({}) panicked: {}", f, pm)),
    }
}

/// Full observable state of a board (public fields and accessors only).
#[derive(Clone, PartialEq, Eq, Debug)]
pub struct Snap {
    pub occ: [u64; 12],
    pub rights: [bool; 4],
    pub ep: u32,
    pub half: u32,
    pub full: u32,
    pub turn: u32,
    pub hash: u64,
    pub pawn_hash: u64,
}

pub fn snap(b: &Bitboard) -> Snap {
    let mut occ = [0u64; 12];
    for (i, &pc) in PIECES.iter().enumerate() {
        occ[i] = b.white.occupancy(pc);
        occ[6 + i] = b.black.occupancy(pc);
    }
    Snap {
        occ,
        rights: [b.white.king_side_castle, b.white.queen_side_castle, b.black.king_side_castle, b.black.queen_side_castle],
        ep: b.en_passant_square_shift,
        half: b.halfmove_clock,
        full: b.fullmove_clock,
        turn: b.turn,
        hash: b.calculate_zobrist_hash(),
        pawn_hash: b.calculate_zobrist_pawn_hash(),
    }
}

impl Snap {
    pub fn diff(&self, o: &Snap) -> String {
        let mut d = Vec::new();
        if self.occ != o.occ { d.push("placement"); }
        if self.rights != o.rights { d.push("rights"); }
        if self.ep != o.ep { d.push("ep"); }
        if self.half != o.half { d.push("halfmove"); }
        if self.full != o.full { d.push("fullmove"); }
        if self.turn != o.turn { d.push("turn"); }
        if self.hash != o.hash { d.push("hash"); }
        if self.pawn_hash != o.pawn_hash { d.push("pawnhash"); }
        d.join("+")
    }
}

/// FEN text written by the code under test (guarded: a corrupt board may panic the writer).
pub fn fen_of(b: &Bitboard) -> Result<String, String> {
    monlib::guarded_mut(|| Fen::from(b).fen)
}

pub fn fen_fields_diff(a: &str, b: &str) -> String {
    let names = ["placement", "side", "castling", "ep", "halfmove", "fullmove"];
    let fa: Vec<&str> = a.split(' ').collect();
    let fb: Vec<&str> = b.split(' ').collect();
    let mut d = Vec::new();
    for i in 0..6 {
        if fa.get(i) != fb.get(i) {
            d.push(names[i]);
        }
    }
    d.join("+")
}

pub fn find_move(b: &Bitboard, uci: &str) -> Option<Move> {
    b.generate_pseudo_legal_moves().into_iter().find(|m| m.to_uci_string() == uci)
}

pub fn parse_fen(s: &str) -> Result<Fen, String> {
    match monlib::guarded(|| Fen::from_str(s)) {
        Ok(Ok(f)) => Ok(f),
        Ok(Err(e)) => Err(format!("{:?}", e)),
        Err(p) => Err(format!("PANIC {}", p)),
    }
}

/// engine square shift (0 = a8) -> reference square (0 = a1)
pub fn to_ref_sq(shift: u32) -> u8 {
    ((7 - shift / 8) * 8 + shift % 8) as u8
}
pub fn to_engine_sq(s: u8) -> u32 {
    ((7 - (s as u32) / 8) * 8 + (s as u32) % 8) as u32
}
