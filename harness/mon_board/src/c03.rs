//! C03 — make followed by unmake restores the position exactly.

use monlib::{guarded_mut, json, mix, panic_sig, Report};
use rand::rngs::StdRng;
use rand::Rng;
use refchess::gen;
use refchess::*;

use crate::adapter::*;
use crate::c01::move_kind;

/// every pseudo-legal move of the code's own generator: make, unmake, compare full snapshots
pub fn check(p: &Pos, rep: &mut Report, rng: &mut StdRng) {
    let fen = p.to_fen();
    let legal: std::collections::BTreeSet<String> = p.legal_moves().iter().map(|m| m.uci()).collect();
    let r = guarded_mut(|| {
        let mut bb = load(p)?;
        let before = snap(&bb);
        let before_fen = fen_of(&bb)?;
        let mut out = Vec::new();
        // both generators: the full one and the capture/promotion-only one (whose moves the
        // quiescence search makes and unmakes)
        let mut all = bb.generate_pseudo_legal_moves();
        let n_full = all.len();
        all.extend(bb.generate_pseudo_legal_non_quiescent_moves());
        for (mi, m) in all.into_iter().enumerate() {
            let u = if mi < n_full { m.to_uci_string() } else { format!("{}~", m.to_uci_string()) };
            bb.make(m);
            let mid = snap(&bb);
            bb.unmake(m);
            let after = snap(&bb);
            let after_fen = fen_of(&bb)?;
            out.push((u, mid.turn != before.turn, before.diff(&after), before_fen != after_fen));
            if after != before {
                // re-load so that one failure does not cascade
                bb = load(p)?;
            }
        }
        Ok::<_, String>(out)
    });
    match r {
        Err(pm) => rep.violation(&format!("make-unmake-{}", panic_sig(&pm)), format!("make/unmake panicked in {}: {}", fen, pm), json!({"kind":"c03","fen":fen})),
        Ok(Err(e)) => rep.violation("load-or-fen-failed", e, json!({"kind":"c03","fen":fen})),
        Ok(Ok(v)) => {
            for (u, changed, d, fen_changed) in v {
                rep.eval();
                let from_noisy_generator = u.ends_with('~');
                let u = u.trim_end_matches('~').to_string();
                if from_noisy_generator { rep.count("moves_of_the_capture_promotion_generator"); }
                let kind = move_kind(p, &u);
                let is_legal = legal.contains(&u);
                if !is_legal { rep.count("illegal_pseudo_legal_moves"); }
                if !changed {
                    rep.violation("make-did-nothing", format!("make({}) did not change the side to move in {}", u, fen), json!({"kind":"c03","fen":fen,"move":u}));
                }
                if !d.is_empty() || fen_changed {
                    let bucket = if p.half >= 128 { "half>=128" } else { "half<128" };
                    rep.violation(&format!("not-restored:{}:{}{}", if d.is_empty() { "fen" } else { &d }, bucket, if from_noisy_generator { ":capture-generator" } else { "" }), format!("make+unmake of {} ({}) in {} changed {}", u, kind, fen, d), json!({"kind":"c03","fen":fen,"move":u}));
                }
                rep.count(&format!("kind_{}", kind));
                if p.half >= 128 { rep.count("halfmove_ge_128"); }
                if p.half >= 128 || kind == "castle" || kind == "ep" || kind == "promotion" || !is_legal || (kind == "capture" && Mv::from_uci(&u).map_or(false, |m| [0u8, 7, 56, 63].contains(&m.to))) {
                    let bucket = if p.half >= 128 { 1 } else { 0 };
                    rep.distinct_hash(mix(mix(p.key().h64(), monlib::fnv(u.as_bytes())), bucket));
                }
            }
        }
    }
    // whole lines made and then unmade in reverse order
    if rng.gen_range(0..4) == 0 {
        line(p, rep, rng);
    }
    if rng.gen_range(0..8) == 0 {
        line_rolled_back_by_the_board(p, rep, rng);
    }
    // In play an en-passant target implies a half-move clock of 0, but the board takes both from
    // a FEN, board editors write any pair, and the property ranges over position x clock value:
    // the same position with a non-zero clock.
    if p.ep.is_some() && p.half == 0 && rng.gen_range(0..2) == 0 {
        let mut v = p.clone();
        v.half = match rng.gen_range(0..3) { 0 => rng.gen_range(1..100), 1 => gen::HALF_CLOCKS[rng.gen_range(1..gen::HALF_CLOCKS.len())], _ => rng.gen_range(1..=gen::MAX_HALF_CLOCK) };
        v.full = v.full.max(v.half / 2 + 1);
        rep.count("ep_target_with_nonzero_clock_positions");
        check(&v, rep, rng);
    }
}

pub fn line(p: &Pos, rep: &mut Report, rng: &mut StdRng) {
    let fen = p.to_fen();
    // mostly short lines, sometimes whole games
    let k = if rng.gen_range(0..8) == 0 { rng.gen_range(65..=400) } else { rng.gen_range(2..=64) };
    let policy = gen::POLICIES[rng.gen_range(0..3)];
    let (_ps, ms) = gen::walk(rng, p, policy, k);
    if ms.is_empty() {
        return;
    }
    let ucis: Vec<String> = ms.iter().map(|m| m.uci()).collect();
    let r = guarded_mut(|| {
        let mut bb = load(p)?;
        let before = snap(&bb);
        let mut made = Vec::new();
        for u in &ucis {
            match find_move(&bb, u) {
                Some(mv) => {
                    bb.make(mv);
                    made.push(mv);
                }
                None => break,
            }
        }
        // optionally end with a pseudo-legal-only move
        let pl = bb.generate_pseudo_legal_moves();
        let mut tail = None;
        for m in pl {
            bb.make(m);
            let v = bb.is_valid();
            bb.unmake(m);
            if !v {
                tail = Some(m);
                break;
            }
        }
        if let Some(m) = tail {
            bb.make(m);
            made.push(m);
        }
        let n = made.len();
        for mv in made.iter().rev() {
            bb.unmake(*mv);
        }
        let after = snap(&bb);
        Ok::<_, String>((n, before.diff(&after), tail.is_some()))
    });
    rep.eval();
    match r {
        Err(pm) => rep.violation(&format!("line-{}", panic_sig(&pm)), format!("line make/unmake panicked from {}: {}", fen, pm), json!({"kind":"c03-line","fen":fen,"moves":ucis})),
        Ok(Err(e)) => rep.violation("load-or-fen-failed", e, json!({"kind":"c03-line","fen":fen,"moves":ucis})),
        Ok(Ok((n, d, tail))) => {
            rep.count("lines");
            rep.max("max_line_length", n as u64);
            if tail { rep.count("lines_ending_in_illegal_pseudo_legal_move"); }
            if !d.is_empty() {
                rep.violation(&format!("line-not-restored:{}", d), format!("line of {} moves from {} not restored: {}", n, fen, d), json!({"kind":"c03-line","fen":fen,"moves":ucis}));
            }
            if rep.samples.len() < 6 && rng.gen_range(0..20) == 0 {
                rep.sample(json!({"fen": fen, "line": ucis, "made_and_unmade": n}));
            }
        }
    }
}

/// The board's own "make a line, take it back in reverse order": `make_all_uci` with a list whose
/// last entry is rejected (a pseudo-legal move that leaves the own king attacked where one exists,
/// otherwise a move that does not exist) makes every earlier move and must unmake them all again.
pub fn line_rolled_back_by_the_board(p: &Pos, rep: &mut Report, rng: &mut StdRng) {
    let fen = p.to_fen();
    let k = rng.gen_range(1..=60);
    let policy = gen::POLICIES[rng.gen_range(0..3)];
    let (ps, ms) = gen::walk(rng, p, policy, k);
    if ms.is_empty() { return; }
    // cut the line at the last position that offers an illegal pseudo-legal move
    let mut cut = ms.len();
    let mut tail: Option<String> = None;
    for i in (1..=ms.len()).rev() {
        let at = &ps[i];
        let legal = at.legal_moves();
        if let Some(m) = at.pseudo_moves().into_iter().find(|m| !legal.contains(m)) {
            cut = i;
            tail = Some(m.uci());
            break;
        }
    }
    let pseudo_tail = tail.is_some();
    let mut ucis: Vec<String> = ms[..cut].iter().map(|m| m.uci()).collect();
    ucis.push(tail.unwrap_or_else(|| "a1a1".to_string()));
    let r = guarded_mut(|| {
        let mut bb = load(p)?;
        let before = snap(&bb);
        let res = bb.make_all_uci(&ucis).is_ok();
        Ok::<_, String>((res, before.diff(&snap(&bb))))
    });
    rep.eval();
    let replay = json!({"kind":"c03-rollback","fen":fen,"moves":ucis});
    match r {
        Err(pm) => rep.violation(&format!("rollback-{}", panic_sig(&pm)), format!("make_all_uci panicked from {}: {}", fen, pm), replay),
        Ok(Err(e)) => rep.violation("load-or-fen-failed", e, replay),
        Ok(Ok((accepted, d))) => {
            rep.count(if pseudo_tail { "lines_rolled_back_by_the_board_after_an_illegal_pseudo_legal_move" } else { "lines_rolled_back_by_the_board_after_an_unknown_move" });
            rep.max("max_rolled_back_line_length", cut as u64);
            if accepted {
                rep.inconclusive("make_all_uci accepted a list ending in an illegal move (C13 matter)");
            } else if !d.is_empty() {
                rep.violation(&format!("line-not-restored-by-rollback:{}:{}", d, if pseudo_tail { "illegal-pseudo-legal-tail" } else { "unknown-tail" }), format!("make_all_uci made {} moves from {}, rejected the last entry and left {} changed", cut, fen, d), replay);
            }
        }
    }
}

/// half-move clock sweep on seed positions
pub fn clock_sweep(rep: &mut Report, rng: &mut StdRng, exhaustive: bool, n_seeds: usize) {
    let seeds = refchess::seeds::seeds();
    let clocks: Vec<u32> = if exhaustive { (0..=4095).collect() } else {
        let mut v: Vec<u32> = gen::HALF_CLOCKS.to_vec();
        v.extend_from_slice(&[2, 63, 64, 65, 126, 130, 191, 192, 254, 257, 511, 512, 513, 1023, 1024, 2047, 2048, 4094]);
        v
    };
    for i in 0..n_seeds {
        let base = &seeds[(i * 7 + 3) % seeds.len()];
        for &h in &clocks {
            let mut p = base.clone();
            p.half = h;
            p.full = p.full.max(h / 2 + 1);
            check(&p, rep, rng);
            rep.count("clock_sweep_positions");
        }
    }
}
