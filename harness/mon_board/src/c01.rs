//! C01 — legal move generation is exactly the rules of chess.

use std::collections::BTreeSet;

use monlib::{guarded_mut, json, panic_sig, Report};
use rand::rngs::StdRng;
use rand::Rng;
use refchess::gen;
use refchess::*;

use crate::adapter::*;

pub fn move_kind(p: &Pos, u: &str) -> &'static str {
    match Mv::from_uci(u) {
        None => "malformed",
        Some(m) => {
            let pc = p.b[m.from as usize];
            if pc == 0 {
                "from-empty"
            } else if pc.abs() == K && (file_of(m.from) - file_of(m.to)).abs() == 2 {
                "castle"
            } else if pc.abs() == P && file_of(m.from) != file_of(m.to) && p.b[m.to as usize] == 0 {
                "ep"
            } else if m.promo != 0 {
                "promotion"
            } else if p.b[m.to as usize] != 0 {
                "capture"
            } else {
                "quiet"
            }
        }
    }
}

fn compare_sets(rep: &mut Report, what: &str, fen: &str, p: &Pos, code: &[String], reference: &BTreeSet<String>) {
    let mut seen = BTreeSet::new();
    for u in code {
        if !seen.insert(u.clone()) {
            rep.violation(&format!("{}-duplicate:{}", what, move_kind(p, u)), format!("{} offers {} twice in {}", what, u, fen), json!({"kind":"c01","fen":fen}));
        }
    }
    for u in seen.difference(reference) {
        rep.violation(&format!("{}-extra:{}", what, move_kind(p, u)), format!("{} offers {} which the rules do not allow in {}", what, u, fen), json!({"kind":"c01","fen":fen}));
    }
    for u in reference.difference(&seen) {
        rep.violation(&format!("{}-missing:{}", what, move_kind(p, u)), format!("{} lacks {} in {}", what, u, fen), json!({"kind":"c01","fen":fen}));
    }
}

pub fn coverage(p: &Pos, rep: &mut Report) -> bool {
    let mut nontrivial = false;
    let white = p.wtm;
    let col = if white { "w" } else { "b" };
    let subset = (p.castle[0] as u32) | (p.castle[1] as u32) << 1 | (p.castle[2] as u32) << 2 | (p.castle[3] as u32) << 3;
    rep.count(&format!("castle_rights_subset_{:02}", subset));
    for (idx, st) in p.castle_status() {
        let wing = if idx % 2 == 0 { "K" } else { "Q" };
        rep.count(&format!("castle_{}{}_{:?}", col, wing, st));
        nontrivial = true;
    }
    let in_check = p.in_check(white);
    if in_check {
        nontrivial = true;
        rep.count("in_check");
        if let Some(k) = p.king_sq(white) {
            if p.attackers(k, !white) >= 2 {
                rep.count("double_check");
            }
        }
    }
    let pseudo = p.pseudo_moves();
    let legal = p.legal_moves();
    if legal.is_empty() {
        rep.count(if in_check { "mate" } else { "stalemate" });
        nontrivial = true;
    }
    for m in &pseudo {
        let is_legal = legal.contains(m);
        if p.is_ep(*m) {
            nontrivial = true;
            if is_legal {
                rep.count(&format!("ep_legal_{}", col));
                if in_check {
                    rep.count("ep_legal_as_check_evasion");
                }
            } else if !in_check {
                let k = p.king_sq(white).unwrap();
                if rank_of(k) == rank_of(m.from) {
                    // both pawns leave the king's rank
                    let mut t = p.clone();
                    t.b[m.from as usize] = 0;
                    if !t.in_check(white) {
                        rep.count("ep_refused_rank_pin");
                    } else {
                        rep.count("ep_refused_other_pin");
                    }
                } else {
                    rep.count("ep_refused_other_pin");
                }
            } else {
                rep.count("ep_refused_in_check");
            }
        }
        if m.promo != 0 && is_legal {
            nontrivial = true;
            let pc = match m.promo { N => "n", B => "b", R => "r", _ => "q" };
            rep.count(&format!("promo_{}_{}_{}", col, pc, if p.is_capture(*m) { "capture" } else { "push" }));
        }
        if !is_legal && !in_check && p.b[m.from as usize].abs() != K && !p.is_ep(*m) {
            rep.count("pinned_piece_move_refused");
            nontrivial = true;
        }
    }
    nontrivial
}

/// the board carried along the walk through the code's own make(): same comparison
pub fn check_carried(p: &Pos, bb: &mut inkayaku_board::Bitboard, rep: &mut Report, what: &str) {
    let fen = p.to_fen();
    let reference: BTreeSet<String> = p.legal_moves().iter().map(|m| m.uci()).collect();
    let r = guarded_mut(|| {
        let a = bb.generate_legal_moves().iter().map(|m| m.to_uci_string()).collect::<Vec<_>>();
        // the same board object asked again: the answer is a function of the position, not of
        // how often it has been asked
        let b = bb.generate_legal_moves().iter().map(|m| m.to_uci_string()).collect::<Vec<_>>();
        (a, b)
    });
    rep.count(&format!("{}_positions", what.replace('-', "_")));
    match r {
        Err(pm) => rep.violation(&format!("{}-{}", what, panic_sig(&pm)), format!("generate_legal_moves panicked on the board carried to {}: {}", fen, pm), json!({"kind":"c01","fen":fen})),
        Ok((a, b)) => {
            compare_sets(rep, what, &fen, p, &a, &reference);
            compare_sets(rep, &format!("{}-asked-again", what), &fen, p, &b, &reference);
        }
    }
}

pub fn check(p: &Pos, rep: &mut Report, rng: &mut StdRng, perft_every: u32, perft_depth: usize) {
    if rng.gen_range(0..12) == 0 { line_by_make_all_uci(p, rep, rng); }
    rep.eval();
    let fen = p.to_fen();
    let replay = json!({"kind":"c01","fen":fen});
    let reference: BTreeSet<String> = p.legal_moves().iter().map(|m| m.uci()).collect();
    let ref_noisy: BTreeSet<String> = p.legal_moves().iter().filter(|m| p.is_capture(**m) || m.promo != 0).map(|m| m.uci()).collect();

    // (1) generate_legal_moves
    let r = guarded_mut(|| {
        let mut bb = load(p)?;
        let a = bb.generate_legal_moves().iter().map(|m| m.to_uci_string()).collect::<Vec<_>>();
        // asked again on the same board object (after the make/unmake probes of the first query)
        let b = bb.generate_legal_moves().iter().map(|m| m.to_uci_string()).collect::<Vec<_>>();
        Ok::<_, String>((a, b))
    });
    match r {
        Err(pm) => rep.violation(&format!("legal-{}", panic_sig(&pm)), format!("generate_legal_moves panicked in {}: {}", fen, pm), replay.clone()),
        Ok(Err(e)) => rep.violation("load-failed", e, replay.clone()),
        Ok(Ok((v, again))) => {
            rep.add("moves_compared", v.len() as u64);
            compare_sets(rep, "legal", &fen, p, &v, &reference);
            rep.add("moves_compared_on_second_query", again.len() as u64);
            compare_sets(rep, "legal-asked-again", &fen, p, &again, &reference);
        }
    }
    // (2) pseudo-legal generator + make / is_valid / unmake filter (what search and perft use)
    let r = guarded_mut(|| {
        let mut bb = load(p)?;
        let mut out = Vec::new();
        for m in bb.generate_pseudo_legal_moves() {
            bb.make(m);
            let ok = bb.is_valid();
            bb.unmake(m);
            if ok {
                out.push(m.to_uci_string());
            }
        }
        // second pass over the same board object, as perft and the search do at every revisit
        let mut again = Vec::new();
        for m in bb.generate_pseudo_legal_moves() {
            bb.make(m);
            let ok = bb.is_valid();
            bb.unmake(m);
            if ok {
                again.push(m.to_uci_string());
            }
        }
        Ok::<_, String>((out, again))
    });
    match r {
        Err(pm) => rep.violation(&format!("filter-{}", panic_sig(&pm)), format!("pseudo-legal filter panicked in {}: {}", fen, pm), replay.clone()),
        Ok(Err(e)) => rep.violation("load-failed", e, replay.clone()),
        Ok(Ok((v, again))) => {
            compare_sets(rep, "filter", &fen, p, &v, &reference);
            compare_sets(rep, "filter-second-pass", &fen, p, &again, &reference);
        }
    }
    // (3) capture/promotion-only generator
    let r = guarded_mut(|| {
        let mut bb = load(p)?;
        let mut out = Vec::new();
        for m in bb.generate_pseudo_legal_non_quiescent_moves() {
            bb.make(m);
            let ok = bb.is_valid();
            bb.unmake(m);
            if ok {
                out.push(m.to_uci_string());
            }
        }
        Ok::<_, String>(out)
    });
    match r {
        Err(pm) => rep.violation(&format!("noisy-{}", panic_sig(&pm)), format!("capture/promotion generator panicked in {}: {}", fen, pm), replay.clone()),
        Ok(Err(e)) => rep.violation("load-failed", e, replay.clone()),
        Ok(Ok(v)) => {
            rep.add("noisy_moves_compared", v.len() as u64);
            compare_sets(rep, "noisy", &fen, p, &v, &ref_noisy);
        }
    }
    // (4) perft per root move at sampled positions
    if perft_every > 0 && rng.gen_range(0..perft_every) == 0 && !reference.is_empty() {
        let r = guarded_mut(|| {
            let mut bb = load(p)?;
            Ok::<_, String>(bb.perft(perft_depth).into_iter().map(|(m, c)| (m.to_uci_string(), c)).collect::<Vec<_>>())
        });
        match r {
            Err(pm) => rep.violation(&format!("perft-{}", panic_sig(&pm)), format!("perft panicked in {}: {}", fen, pm), replay.clone()),
            Ok(Err(e)) => rep.violation("load-failed", e, replay.clone()),
            Ok(Ok(v)) => {
                rep.count("perft_samples");
                let mut code: std::collections::BTreeMap<String, u64> = Default::default();
                for (u, c) in v {
                    *code.entry(u).or_insert(0) += c;
                }
                let mut refc: std::collections::BTreeMap<String, u64> = Default::default();
                for m in p.legal_moves() {
                    refc.insert(m.uci(), p.make(m).perft(perft_depth as u32 - 1));
                }
                if code != refc {
                    let bad: Vec<String> = refc.iter().filter(|(u, c)| code.get(*u) != Some(c)).map(|(u, c)| format!("{}:{}!={:?}", u, c, code.get(u))).take(5).collect();
                    rep.violation("perft-count", format!("perft({}) per-move counts differ in {}: {}", perft_depth, fen, bad.join(" ")), json!({"kind":"c01","fen":fen,"perft":perft_depth}));
                }
            }
        }
    }
    if coverage(p, rep) {
        rep.distinct_hash(p.key().h64());
    }
    if rep.samples.len() < 6 && !ref_noisy.is_empty() && rng.gen_range(0..50) == 0 {
        rep.sample(json!({"fen": fen, "legal_moves": reference.len(), "captures_or_promotions": ref_noisy.len()}));
    }
}

/// A board brought to a position by ONE `make_all_uci` call over a whole line (the third way a
/// user reaches a position, next to make() and make_uci()): it must offer the move set of the
/// position the rules reach. Lines revisit squares (quiet move first, capture on the same squares
/// later, another piece on the same squares, out-and-back shuffles).
pub fn line_by_make_all_uci(p: &Pos, rep: &mut Report, rng: &mut StdRng) {
    let fen = p.to_fen();
    let n = if rng.gen_range(0..4) == 0 { rng.gen_range(60..=200) } else { rng.gen_range(2..=60) };
    let policy = gen::POLICIES[rng.gen_range(0..3)];
    let (ps, ms) = gen::walk(rng, p, policy, n);
    if ms.is_empty() { return; }
    let ucis: Vec<String> = ms.iter().map(|m| m.uci()).collect();
    let end = ps.last().unwrap();
    let reference: BTreeSet<String> = end.legal_moves().iter().map(|m| m.uci()).collect();
    let r = guarded_mut(|| {
        let mut bb = load(p)?;
        bb.make_all_uci(&ucis).map_err(|e| format!("make_all_uci rejected a legal line: {:?}", e))?;
        Ok::<_, String>(bb.generate_legal_moves().iter().map(|m| m.to_uci_string()).collect::<Vec<_>>())
    });
    rep.eval();
    rep.count("lines_applied_by_make_all_uci");
    let replay = json!({"kind":"c01-line","fen":fen,"moves":ucis});
    match r {
        Err(pm) => rep.violation(&format!("line-by-make_all_uci-{}", panic_sig(&pm)), format!("panicked from {}: {}", fen, pm), replay),
        Ok(Err(e)) => rep.violation("line-by-make_all_uci-refused", format!("{} from {}", e, fen), replay),
        Ok(Ok(v)) => {
            let seen: BTreeSet<String> = v.iter().cloned().collect();
            if seen != reference || seen.len() != v.len() {
                let extra: Vec<&String> = seen.difference(&reference).collect();
                let missing: Vec<&String> = reference.difference(&seen).collect();
                rep.violation(&format!("after-make_all_uci-line:{}", if !extra.is_empty() { "extra" } else if !missing.is_empty() { "missing" } else { "duplicate" }), format!("after {} moves from {} by make_all_uci the board should be {}: extra {:?} missing {:?}", ucis.len(), fen, end.to_fen(), extra, missing), replay);
            }
        }
    }
}
