//! String mutators shared by the text-facing monitors.

use rand::rngs::StdRng;
use rand::seq::SliceRandom;
use rand::Rng;

pub const ODD_CHARS: &[char] = &['٣', '７', '௧', 'é', 'ß', '♔', '\u{212A}', '\u{017F}', '\u{0130}', '\u{0131}', 'ｋ', 'Ｋ', 'ｐ', 'к', 'р', '\u{1E9E}', 'ǅ', '\u{0}', '\t', '\n', ' ', '\u{7f}', '€', '𝟙', '½', '\u{202e}', 'K', 'k', 'x', '9', '0', '-', '/', '+'];

pub fn random_utf8(rng: &mut StdRng, max_len: usize) -> String {
    let n = rng.gen_range(0..=max_len);
    let mut s = String::new();
    for _ in 0..n {
        let c = match rng.gen_range(0..10) {
            0..=4 => rng.gen_range(0x20u8..0x7f) as char,
            5 => *ODD_CHARS.choose(rng).unwrap(),
            6 => *b"PNBRQKpnbrqk12345678/ wb-".choose(rng).unwrap() as char,
            7 => char::from_u32(rng.gen_range(0x80..0x800)).unwrap_or('?'),
            8 => char::from_u32(rng.gen_range(0x800..0xd800)).unwrap_or('?'),
            _ => char::from_u32(rng.gen_range(0x10000..0x10ffff)).unwrap_or('?'),
        };
        s.push(c);
    }
    s
}

/// one character-level or token-level fault
pub fn mutate(rng: &mut StdRng, s: &str, alphabet: &[u8]) -> String {
    let chars: Vec<char> = s.chars().collect();
    if chars.is_empty() {
        return random_utf8(rng, 4);
    }
    let mut c = chars.clone();
    let pick = |rng: &mut StdRng| -> char {
        match rng.gen_range(0..10) {
            0..=5 => *alphabet.choose(rng).unwrap() as char,
            6..=7 => *ODD_CHARS.choose(rng).unwrap(),
            _ => rng.gen_range(0x20u8..0x7f) as char,
        }
    };
    match rng.gen_range(0..9) {
        0 => {
            let i = rng.gen_range(0..c.len());
            c.remove(i);
        }
        1 => {
            let i = rng.gen_range(0..=c.len());
            let ch = pick(rng);
            c.insert(i, ch);
        }
        2 => {
            let i = rng.gen_range(0..c.len());
            c[i] = pick(rng);
        }
        3 => {
            if c.len() >= 2 {
                let i = rng.gen_range(0..c.len() - 1);
                c.swap(i, i + 1);
            }
        }
        4 => {
            let i = rng.gen_range(0..c.len());
            c[i] = if c[i].is_ascii_uppercase() { c[i].to_ascii_lowercase() } else { c[i].to_ascii_uppercase() };
        }
        5 | 6 | 7 => {
            // token level
            let mut toks: Vec<String> = s.split(' ').map(|t| t.to_string()).collect();
            let i = rng.gen_range(0..toks.len());
            match rng.gen_range(0..4) {
                0 => {
                    toks.remove(i);
                }
                1 => {
                    let t = toks[i].clone();
                    toks.insert(i, t);
                }
                2 => {
                    let j = rng.gen_range(0..toks.len());
                    toks.swap(i, j);
                }
                _ => {
                    toks[i] = random_utf8(rng, 6);
                }
            }
            return toks.join(" ");
        }
        _ => {
            let i = rng.gen_range(0..c.len());
            let j = rng.gen_range(i..c.len());
            c.drain(i..=j);
        }
    }
    c.into_iter().collect()
}
