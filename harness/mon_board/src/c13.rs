//! C13 — move strings are applied only if legal; a rejected move changes nothing.

use std::collections::BTreeSet;

use monlib::{guarded_mut, json, panic_sig, Report};
use rand::rngs::StdRng;
use rand::seq::SliceRandom;
use rand::Rng;
use refchess::gen;
use refchess::*;

use crate::adapter::*;
use crate::strgen;

fn all_move_strings() -> Vec<String> {
    let mut v = Vec::with_capacity(64 * 64 * 6);
    for a in 0..64u8 {
        for b in 0..64u8 {
            for sfx in ["", "q", "r", "b", "n", "k"] {
                v.push(format!("{}{}{}", sq_name(a), sq_name(b), sfx));
            }
        }
    }
    v
}

/// find_uci / make_uci on a set of strings at position p
pub fn check_strings(p: &Pos, strings: &[String], rep: &mut Report, exhaustive: bool) {
    let fen = p.to_fen();
    let legal: BTreeSet<String> = p.legal_moves().iter().map(|m| m.uci()).collect();
    let r = guarded_mut(|| {
        let mut bb = load(p)?;
        let before = snap(&bb);
        let mut out = Vec::new();
        for u in strings {
            // find_uci
            let r1 = guarded_mut(|| bb.find_uci(u).map(|m| m.to_uci_string()).map_err(|e| format!("{:?}", e)));
            let s1 = snap(&bb);
            let d1 = before.diff(&s1);
            if !d1.is_empty() { bb = load(p)?; }
            // make_uci
            let r2 = guarded_mut(|| bb.make_uci(u).map_err(|e| format!("{:?}", e)));
            let after_make = fen_of(&bb).unwrap_or_else(|e| format!("<writer panicked: {}>", e));
            let s2 = snap(&bb);
            let d2 = before.diff(&s2);
            if !d2.is_empty() { bb = load(p)?; }
            out.push((u.clone(), r1, d1, r2, d2, after_make));
        }
        Ok::<_, String>(out)
    });
    let out = match r {
        Err(pm) => { rep.violation(&format!("find-{}", panic_sig(&pm)), format!("panicked in {}: {}", fen, pm), json!({"kind":"c13","fen":fen})); return; }
        Ok(Err(e)) => { rep.violation("load-failed", e, json!({"kind":"c13","fen":fen})); return; }
        Ok(Ok(o)) => o,
    };
    for (u, r1, d1, r2, d2, after_make) in out {
        rep.eval();
        let replay = json!({"kind":"c13","fen":fen,"move":u});
        // the code trims the argument; strings with surrounding white space are unspecified (DESIGN §6)
        let padded = u.trim() != u;
        let is_legal = legal.contains(u.as_str());
        let class = if is_legal { "legal" } else if Mv::from_uci(&u).map_or(false, |m| p.pseudo_moves().contains(&m)) { "pseudo-legal-illegal" } else { "other" };
        rep.count(&format!("strings_{}", class));
        match &r1 {
            Err(pm) => rep.violation(&format!("find_uci-{}", panic_sig(pm)), format!("find_uci({:?}) panicked in {}: {}", u, fen, pm), replay.clone()),
            Ok(res) => {
                if !padded && res.is_ok() != is_legal {
                    rep.violation(&format!("find_uci-{}:{}", if is_legal { "rejects-legal" } else { "accepts-illegal" }, class), format!("find_uci({:?}) = {:?} in {} but legal={}", u, res, fen, is_legal), replay.clone());
                }
                if let Ok(found) = res { if !padded && found != &u { rep.violation("find_uci-returns-other-move", format!("find_uci({:?}) returned {}", u, found), replay.clone()); } }
                if !d1.is_empty() {
                    rep.violation(&format!("find_uci-side-effect:{}:{}", if res.is_ok() { "ok" } else { "err" }, class), format!("find_uci({:?}) -> {:?} changed {} of {}", u, res, d1, fen), replay.clone());
                }
            }
        }
        match &r2 {
            Err(pm) => rep.violation(&format!("make_uci-{}", panic_sig(pm)), format!("make_uci({:?}) panicked in {}: {}", u, fen, pm), replay.clone()),
            Ok(res) => {
                if !padded && res.is_ok() != is_legal {
                    rep.violation(&format!("make_uci-{}:{}", if is_legal { "rejects-legal" } else { "accepts-illegal" }, class), format!("make_uci({:?}) = {:?} in {} but legal={}", u, res, fen, is_legal), replay.clone());
                }
                if res.is_err() && !d2.is_empty() {
                    rep.violation(&format!("make_uci-error-side-effect:{}", class), format!("make_uci({:?}) failed but changed {} of {}", u, d2, fen), replay.clone());
                }
                if res.is_ok() && is_legal {
                    let want = p.make(Mv::from_uci(&u).unwrap()).to_fen();
                    if after_make != want {
                        rep.violation(&format!("make_uci-successor:{}", fen_fields_diff(&after_make, &want)), format!("make_uci({}) in {}: code {} | rules {}", u, fen, after_make, want), replay.clone());
                    }
                }
            }
        }
    }
    if rep.samples.len() < 4 {
        rep.sample(json!({"fen": fen, "strings_tried": strings.len(), "legal": legal.len(), "examples": strings.iter().take(6).collect::<Vec<_>>()}));
    }
    if exhaustive {
        rep.count("positions_with_complete_move_string_space");
        rep.distinct_hash(p.key().h64());
    }
}

fn interesting_strings(p: &Pos, rng: &mut StdRng) -> Vec<String> {
    let mut v: Vec<String> = p.pseudo_moves().iter().map(|m| m.uci()).collect();
    // promotion moves without / with wrong suffix, normal moves with a suffix
    for m in p.legal_moves() {
        if m.promo != 0 {
            v.push(Mv { promo: 0, ..m }.uci());
            v.push(format!("{}k", Mv { promo: 0, ..m }.uci()));
            v.push(format!("{}p", Mv { promo: 0, ..m }.uci()));
        } else if rng.gen_range(0..4) == 0 {
            v.push(format!("{}q", m.uci()));
            v.push(m.uci().to_uppercase());
            v.push(format!("{}{}", &m.uci()[2..4], &m.uci()[0..2]));
        }
    }
    for _ in 0..60 {
        let a = rng.gen_range(0..64u8);
        let b = rng.gen_range(0..64u8);
        v.push(format!("{}{}{}", sq_name(a), sq_name(b), ["", "", "", "q", "n", "k"].choose(rng).unwrap()));
    }
    for _ in 0..30 {
        let base = v.choose(rng).cloned().unwrap_or_else(|| "e2e4".into());
        v.push(strgen::mutate(rng, &base, b"abcdefgh12345678qrbnk"));
    }
    for s in ["", "0000", "e2", "e2e", "e2e4e5", "é2e4", "e२e4", "    ", "a1a1", "i9i9", "--", "O-O", "e2-e4", "e2e4 ", " e2e4"] {
        v.push(s.to_string());
    }
    for _ in 0..10 {
        v.push(strgen::random_utf8(rng, 8));
    }
    v
}

pub fn check(p: &Pos, rep: &mut Report, rng: &mut StdRng, exhaustive: bool) {
    if exhaustive {
        check_strings(p, &all_move_strings(), rep, true);
    } else {
        let s = interesting_strings(p, rng);
        check_strings(p, &s, rep, false);
        rep.distinct_hash(p.key().h64());
    }
    if rng.gen_range(0..2) == 0 { move_list(p, rep, rng); }
    if rng.gen_range(0..2) == 0 { san_side_effects(p, rep, rng); }
    if rng.gen_range(0..2) == 0 {
        for o in foreign_sources(p, rng) { foreign_handles(p, &o, rep); }
    }
}

/// make_all_uci: all-or-nothing
pub fn move_list(p: &Pos, rep: &mut Report, rng: &mut StdRng) {
    let fen = p.to_fen();
    let len = rng.gen_range(1..=80);
    let policy = gen::POLICIES[rng.gen_range(0..3)];
    let (ps, ms) = gen::walk(rng, p, policy, len);
    let mut list: Vec<String> = ms.iter().map(|m| m.uci()).collect();
    let mut fault_at: Option<usize> = None;
    if !list.is_empty() && rng.gen_bool(0.7) {
        let i = rng.gen_range(0..list.len());
        let at = &ps[i];
        let bad: String = match rng.gen_range(0..4) {
            0 => {
                // pseudo-legal but illegal, if any
                let legal = at.legal_moves();
                at.pseudo_moves().into_iter().find(|m| !legal.contains(m)).map(|m| m.uci()).unwrap_or_else(|| "a1a1".into())
            }
            1 => {
                // a move of the other side
                let mut o = at.clone();
                o.wtm = !o.wtm;
                o.ep = None;
                o.pseudo_moves().first().map(|m| m.uci()).unwrap_or_else(|| "h8h8".into())
            }
            2 => strgen::random_utf8(rng, 6),
            _ => "0000".into(),
        };
        if !at.legal_moves().iter().any(|m| m.uci() == bad.trim()) {
            list[i] = bad;
            fault_at = Some(i);
        }
    }
    rep.eval();
    let replay = json!({"kind":"c13-list","fen":fen,"moves":list});
    let r = guarded_mut(|| {
        let mut bb = load(p)?;
        let before = snap(&bb);
        let res = bb.make_all_uci(&list).map_err(|e| format!("{:?}", e));
        let after = snap(&bb);
        let end_fen = fen_of(&bb).unwrap_or_default();
        // repeated calls on the same board object accumulate no drift
        let mut drift = String::new();
        if res.is_err() {
            for _ in 0..2 {
                let _ = bb.make_all_uci(&list);
            }
            drift = before.diff(&snap(&bb));
        }
        Ok::<_, String>((res, before.diff(&after), end_fen, drift))
    });
    match r {
        Err(pm) => rep.violation(&format!("make_all_uci-{}", panic_sig(&pm)), format!("make_all_uci panicked from {}: {}", fen, pm), replay),
        Ok(Err(e)) => rep.violation("load-failed", e, replay),
        Ok(Ok((res, d, end_fen, drift))) => {
            match fault_at {
                None => {
                    rep.count("lists_all_legal");
                    let want = ps.last().unwrap().to_fen();
                    if res.is_err() {
                        rep.violation("make_all_uci-rejects-legal-list", format!("{:?} from {}", res, fen), replay);
                    } else if end_fen != want {
                        rep.violation(&format!("make_all_uci-end-position:{}", fen_fields_diff(&end_fen, &want)), format!("end {} expected {}", end_fen, want), replay);
                    }
                }
                Some(i) => {
                    rep.count("lists_with_fault");
                    rep.max("max_fault_index", i as u64);
                    rep.distinct_hash(monlib::mix(p.key().h64(), i as u64));
                    if res.is_ok() {
                        rep.violation("make_all_uci-accepts-bad-list", format!("list with fault at {} accepted from {}", i, fen), replay);
                    } else if !d.is_empty() {
                        rep.violation(&format!("make_all_uci-not-rolled-back:{}", if i == 0 { "fault-at-0" } else { "fault-later" }), format!("fault at index {}: {} changed (from {})", i, d, fen), replay);
                    } else if !drift.is_empty() {
                        rep.violation("make_all_uci-drift-on-repeat", format!("repeated failing calls changed {} (from {})", drift, fen), replay);
                    }
                }
            }
        }
    }
}

/// uci_to_pgn / pgn_to_bb with illegal, unknown or malformed arguments: no side effect, no panic
pub fn san_side_effects(p: &Pos, rep: &mut Report, rng: &mut StdRng) {
    let fen = p.to_fen();
    let legal = p.legal_moves();
    let mut ucis: Vec<String> = p.pseudo_moves().iter().filter(|m| !legal.contains(m)).map(|m| m.uci()).collect();
    for _ in 0..6 {
        ucis.push(format!("{}{}", sq_name(rng.gen_range(0..64)), sq_name(rng.gen_range(0..64))));
    }
    ucis.push(strgen::random_utf8(rng, 6));
    ucis.push(String::new());
    for m in legal.iter().take(3) { ucis.push(m.uci()); }
    let mut sans: Vec<String> = vec!["Nf3".into(), "Qh9".into(), "O-O".into(), "O-O-O".into(), "exd6".into(), "e8=Q".into(), "Zz".into(), "".into(), "Kxe1".into(), "R1a3".into(), "Nbd2+".into(), "e4#".into(), "é4".into()];
    for _ in 0..4 { sans.push(strgen::random_utf8(rng, 7)); }
    for m in legal.iter().take(3) { sans.push(san::san(p, *m)); }
    let r = guarded_mut(|| {
        let mut bb = load(p)?;
        let before = snap(&bb);
        let mut out = Vec::new();
        for u in &ucis {
            let r = guarded_mut(|| bb.uci_to_pgn(u).map_err(|e| format!("{:?}", e)));
            let d = before.diff(&snap(&bb));
            if !d.is_empty() { bb = load(p)?; }
            out.push(("uci_to_pgn", u.clone(), r, d));
        }
        for s in &sans {
            let r = guarded_mut(|| bb.pgn_to_bb(s).map(|m| m.to_uci_string()).map_err(|_| "Err".to_string()));
            let d = before.diff(&snap(&bb));
            if !d.is_empty() { bb = load(p)?; }
            out.push(("pgn_to_bb", s.clone(), r, d));
        }
        Ok::<_, String>(out)
    });
    match r {
        Err(pm) => rep.violation(&format!("san-{}", panic_sig(&pm)), format!("panicked in {}: {}", fen, pm), json!({"kind":"c13-san","fen":fen})),
        Ok(Err(e)) => rep.violation("load-failed", e, json!({"kind":"c13-san","fen":fen})),
        Ok(Ok(out)) => {
            for (f, arg, r, d) in out {
                rep.eval();
                rep.count(&format!("{}_calls", f));
                let replay = json!({"kind":"c13-san","fen":fen,"fn":f,"arg":arg});
                match r {
                    Err(pm) => rep.violation(&format!("{}-{}", f, panic_sig(&pm)), format!("{}({:?}) panicked in {}: {}", f, arg, fen, pm), replay),
                    Ok(res) => {
                        if !d.is_empty() {
                            rep.violation(&format!("{}-side-effect:{}", f, if res.is_ok() { "ok" } else { "err" }), format!("{}({:?}) -> {:?} changed {} of {}", f, arg, res, d, fen), replay);
                        }
                    }
                }
            }
        }
    }
}

/// Move::to_pgn_string with a move value that was generated on another board (a stale or foreign
/// handle): the conversion has to decide by what the move denotes on THIS board — Ok with the SAN
/// the rules define if it denotes a legal move here, an error otherwise — and must leave the board
/// as it was in both cases.
pub fn foreign_handles(p: &Pos, other: &Pos, rep: &mut Report) {
    let fen = p.to_fen();
    let ofen = other.to_fen();
    let legal: BTreeSet<String> = p.legal_moves().iter().map(|m| m.uci()).collect();
    let r = guarded_mut(|| {
        let mut bb = load(p)?;
        let mut ob = load(other)?;
        let foreign = ob.generate_pseudo_legal_moves();
        let before = snap(&bb);
        let mut out = Vec::new();
        for mv in foreign {
            let u = mv.to_uci_string();
            let r = guarded_mut(|| mv.to_pgn_string(&mut bb).map_err(|e| format!("{:?}", e)));
            let d = before.diff(&snap(&bb));
            if !d.is_empty() { bb = load(p)?; }
            out.push((u, r, d));
        }
        Ok::<_, String>(out)
    });
    match r {
        Err(pm) => rep.violation(&format!("foreign-{}", panic_sig(&pm)), format!("panicked in {}: {}", fen, pm), json!({"kind":"c13-foreign","fen":fen,"other":ofen})),
        Ok(Err(e)) => rep.violation("load-failed", e, json!({"kind":"c13-foreign","fen":fen,"other":ofen})),
        Ok(Ok(out)) => {
            for (u, r, d) in out {
                rep.eval();
                rep.count("foreign_handle_calls");
                let replay = json!({"kind":"c13-foreign","fen":fen,"other":ofen,"move":u});
                let is_legal = legal.contains(&u);
                rep.count(if is_legal { "foreign_handle_legal_here" } else { "foreign_handle_not_legal_here" });
                match r {
                    Err(pm) => rep.violation(&format!("to_pgn_string-{}", panic_sig(&pm)), format!("to_pgn_string({}) panicked in {}: {}", u, fen, pm), replay),
                    Ok(res) => {
                        if !d.is_empty() {
                            rep.violation(&format!("to_pgn_string-side-effect:{}", if res.is_ok() { "ok" } else { "err" }), format!("to_pgn_string({}) of a move generated in {} -> {:?} changed {} of {}", u, ofen, res, d, fen), replay);
                        } else if res.is_ok() != is_legal {
                            rep.violation(&format!("to_pgn_string-verdict:{}", if is_legal { "rejects-legal" } else { "accepts-illegal" }), format!("to_pgn_string({}) of a move generated in {} -> {:?} in {}", u, ofen, res, fen), replay);
                        } else if let Ok(s) = res {
                            let m = p.legal_moves().into_iter().find(|m| m.uci() == u).unwrap();
                            let want = san::san(p, m);
                            if s != want {
                                rep.violation("to_pgn_string-wrong-san", format!("to_pgn_string({}) -> {} expected {} in {}", u, s, want, fen), replay);
                            }
                        }
                    }
                }
            }
        }
    }
}

/// positions the foreign handles come from: a few plies further along a walk from p (same piece
/// placement neighbourhood, different clocks / en-passant / castling bits), p with the other side to
/// move, and an unrelated position
pub fn foreign_sources(p: &Pos, rng: &mut StdRng) -> Vec<Pos> {
    let mut v = Vec::new();
    let pol = gen::POLICIES[rng.gen_range(0..3)];
    let n = rng.gen_range(2..=6);
    let (ps, _) = gen::walk(rng, p, pol, n);
    if let Some(l) = ps.last() { v.push(l.clone()); }
    if ps.len() > 2 { v.push(ps[2].clone()); }
    let mut o = p.clone();
    o.half = (o.half + 7) % 90;
    o.ep = None;
    v.push(o);
    v
}
