//! The shared position stream: walks from seeds / synthesised positions, all move choices made by
//! the reference model. The per-property monitor is called at every visited position.

use monlib::{Args, Report};
use rand::rngs::StdRng;
use rand::Rng;
use refchess::gen::{self, Policy, Starts, POLICIES};
use refchess::Pos;

pub struct StreamCfg {
    pub positions: u64,
    pub max_plies: usize,
    pub max_half: u32,
    pub max_full: u32,
}

pub fn run(args: &Args, cfg: &StreamCfg, rep: &mut Report, f: &mut dyn FnMut(&Pos, &mut Report, &mut StdRng)) {
    run_carried(args, cfg, rep, &mut |p, rep, rng, _| f(p, rep, rng));
}

/// Like `run`, but additionally carries one board of the code under test along every walk through
/// its own `make` (moves looked up by their UCI text), so that state which only arises from a
/// *sequence* of moves on the real board (rights flags, e.p. square, clocks) is observed too.
/// The callback receives the carried board (None once a move could not be found or a call panicked).
pub fn run_carried(args: &Args, cfg: &StreamCfg, rep: &mut Report, f: &mut dyn FnMut(&Pos, &mut Report, &mut StdRng, Option<&mut inkayaku_board::Bitboard>)) {
    run_carried2(args, cfg, rep, &mut |p, rep, rng, a, _| f(p, rep, rng, a));
}

/// As `run_carried`, with a second board that is advanced through the public `make_uci(text)` —
/// the path the engine's `position ... moves` and the Lichess bot use.
#[allow(clippy::type_complexity)]
pub fn run_carried2(args: &Args, cfg: &StreamCfg, rep: &mut Report, f: &mut dyn FnMut(&Pos, &mut Report, &mut StdRng, Option<&mut inkayaku_board::Bitboard>, Option<&mut inkayaku_board::Bitboard>)) {
    let mut rng = gen::rng(args.seed, args.shard, 1);
    let mut starts = Starts::new(cfg.max_half, cfg.max_full, (args.shard as usize) * 7 + (args.seed as usize % 1000));
    let per_shard = (cfg.positions / args.nshards.max(1)).max(1);
    let mut visited = 0u64;
    let mut walks = 0u64;
    while visited < per_shard {
        let start = starts.next(&mut rng);
        let policy: Policy = POLICIES[rng.gen_range(0..3)];
        let max = match policy {
            Policy::Shuffle => cfg.max_plies,
            _ => cfg.max_plies.min(160),
        };
        let len = rng.gen_range(1..=max);
        let mut cur = start.clone();
        let mut carried = crate::adapter::load(&start).ok();
        let mut carried_uci = crate::adapter::load(&start).ok();
        walks += 1;
        for _ in 0..len {
            f(&cur, rep, &mut rng, carried.as_mut(), carried_uci.as_mut());
            visited += 1;
            if visited >= per_shard {
                break;
            }
            let legal = cur.legal_moves();
            if legal.is_empty() {
                break;
            }
            let m = gen::choose(&mut rng, &cur, &legal, policy);
            carried = match carried {
                Some(mut bb) => {
                    let u = m.uci();
                    match monlib::guarded_mut(|| { match crate::adapter::find_move(&bb, &u) { Some(mv) => { bb.make(mv); Some(bb) } None => None } }) { Ok(x) => x, Err(_) => None }
                }
                None => None,
            };
            carried_uci = match carried_uci {
                Some(mut bb) => {
                    let u = m.uci();
                    match monlib::guarded_mut(|| { if bb.make_uci(&u).is_ok() { Some(bb) } else { None } }) { Ok(x) => x, Err(_) => None }
                }
                None => None,
            };
            cur = cur.make(m);
            // keep clocks inside the engine's representable range
            if cur.half > cfg.max_half || cur.full > cfg.max_full {
                break;
            }
        }
    }
    rep.add("walks", walks);
    rep.add("positions_visited", visited);
}
