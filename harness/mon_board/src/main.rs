//! mon_board — monitors for C01 C02 C03 C04 C05 C06 C12 C13 C14 (board-level properties).
//! usage: mon_board <c01|...|c14> --seed N --shard i --nshards n --tier quick|thorough --out file
//!        mon_board <cXX> --replay file

mod adapter;
mod c01;
mod c02;
mod c03;
mod c04;
mod c05;
mod c06;
mod c12;
mod c13;
mod c14;
mod stream;
mod strgen;

use monlib::{json, Args, Report, Value};
use rand::Rng;
use refchess::gen;
use refchess::Pos;
use stream::StreamCfg;

fn pos_of(case: &Value) -> Pos {
    let f = case["fen"].as_str().expect("replay case needs fen");
    Pos::from_fen(f).unwrap_or_else(|e| panic!("replay fen {}: {}", f, e))
}

fn replay(prop: &str, case: &Value, rep: &mut Report) {
    let mut rng = gen::rng(1, 0, 99);
    let kind = case["kind"].as_str().unwrap_or("");
    match (prop, kind) {
        ("c01", "c01-line") => {
            let p = pos_of(case);
            let moves: Vec<String> = case["moves"].as_array().map(|a| a.iter().filter_map(|v| v.as_str().map(|s| s.to_string())).collect()).unwrap_or_default();
            let mut end = p.clone();
            for u in &moves { end = end.make(refchess::Mv::from_uci(u).unwrap()); }
            let want: std::collections::BTreeSet<String> = end.legal_moves().iter().map(|m| m.uci()).collect();
            let r = monlib::guarded_mut(|| {
                let mut bb = adapter::load(&p)?;
                bb.make_all_uci(&moves).map_err(|e| format!("{:?}", e))?;
                Ok::<_, String>(bb.generate_legal_moves().iter().map(|m| m.to_uci_string()).collect::<std::collections::BTreeSet<_>>())
            });
            match r {
                Ok(Ok(got)) if got == want => {}
                other => rep.violation("after-make_all_uci-line", format!("{:?} expected {:?}", other, want), case.clone()),
            }
        }
        ("c01", _) => c01::check(&pos_of(case), rep, &mut rng, 1, case["perft"].as_u64().unwrap_or(2) as usize),
        ("c02", _) => c02::check(&pos_of(case), rep, &mut rng),
        ("c03", "c03-line") => {
            // deterministic re-run of the recorded line
            let p = pos_of(case);
            let moves: Vec<String> = case["moves"].as_array().map(|a| a.iter().filter_map(|v| v.as_str().map(|s| s.to_string())).collect()).unwrap_or_default();
            let r = monlib::guarded_mut(|| {
                let mut bb = adapter::load(&p)?;
                let before = adapter::snap(&bb);
                let mut made = Vec::new();
                for u in &moves {
                    match adapter::find_move(&bb, u) { Some(mv) => { bb.make(mv); made.push(mv); } None => break }
                }
                for mv in made.iter().rev() { bb.unmake(*mv); }
                Ok::<_, String>(before.diff(&adapter::snap(&bb)))
            });
            match r {
                Ok(Ok(d)) if d.is_empty() => {}
                other => rep.violation("line-not-restored", format!("{:?}", other), case.clone()),
            }
            c03::check(&p, rep, &mut rng);
        }
        ("c03", "c03-rollback") => {
            let p = pos_of(case);
            let moves: Vec<String> = case["moves"].as_array().map(|a| a.iter().filter_map(|v| v.as_str().map(|s| s.to_string())).collect()).unwrap_or_default();
            let r = monlib::guarded_mut(|| {
                let mut bb = adapter::load(&p)?;
                let before = adapter::snap(&bb);
                let ok = bb.make_all_uci(&moves).is_ok();
                Ok::<_, String>((ok, before.diff(&adapter::snap(&bb))))
            });
            match r {
                Ok(Ok((false, d))) if d.is_empty() => {}
                other => rep.violation("line-not-restored-by-rollback", format!("{:?}", other), case.clone()),
            }
        }
        ("c03", _) => c03::check(&pos_of(case), rep, &mut rng),
        ("c04", _) => c04::replay(case, rep),
        ("c05", _) => c05::check(&pos_of(case), rep, &mut rng),
        ("c06", "c06-keys") => c06::key_table(rep),
        ("c06", "c06-variant") => {
            let mut maps = c06::Maps::default();
            let p = pos_of(case);
            let v = Pos::from_fen(case["variant"].as_str().unwrap()).unwrap();
            let (a, b) = (adapter::load(&p).unwrap().calculate_zobrist_hash(), adapter::load(&v).unwrap().calculate_zobrist_hash());
            if a == b { rep.violation("variant-same-hash", format!("{:x}", a), case.clone()); }
            c06::check(&p, rep, &mut rng, &mut maps);
        }
        ("c06", _) => {
            let mut maps = c06::Maps::default();
            c06::check(&pos_of(case), rep, &mut rng, &mut maps);
            if let Ok(mut bb) = adapter::load(&pos_of(case)) { c06::node_round_trip(&pos_of(case), &mut bb, rep); }
        }
        ("c12", _) => c12::check_string(case["string"].as_str().unwrap_or(""), rep, "replay"),
        ("c13", "c13") => {
            let p = pos_of(case);
            match case["move"].as_str() {
                Some(u) => c13::check_strings(&p, &[u.to_string()], rep, false),
                None => c13::check(&p, rep, &mut rng, false),
            }
        }
        ("c13", "c13-list") => {
            let p = pos_of(case);
            let list: Vec<String> = case["moves"].as_array().map(|a| a.iter().filter_map(|v| v.as_str().map(|s| s.to_string())).collect()).unwrap_or_default();
            let legal_all = {
                let mut c = p.clone();
                let mut ok = true;
                for u in &list {
                    match refchess::Mv::from_uci(u.trim()) { Some(m) if c.is_legal(m) => c = c.make(m), _ => { ok = false; break; } }
                }
                ok
            };
            let r = monlib::guarded_mut(|| {
                let mut bb = adapter::load(&p)?;
                let before = adapter::snap(&bb);
                let res = bb.make_all_uci(&list).is_ok();
                Ok::<_, String>((res, before.diff(&adapter::snap(&bb))))
            });
            match r {
                Ok(Ok((res, d))) => {
                    if res != legal_all { rep.violation("make_all_uci-verdict", format!("ok={} but all-legal={}", res, legal_all), case.clone()); }
                    if !res && !d.is_empty() { rep.violation("make_all_uci-not-rolled-back", d, case.clone()); }
                }
                other => rep.violation("make_all_uci-panic", format!("{:?}", other), case.clone()),
            }
        }
        ("c13", "c13-foreign") => {
            let o = Pos::from_fen(case["other"].as_str().unwrap()).unwrap();
            c13::foreign_handles(&pos_of(case), &o, rep);
        }
        ("c13", _) => c13::san_side_effects(&pos_of(case), rep, &mut rng),
        ("c14", _) => {
            let mut foreign = Vec::new();
            if let Some(s) = case["san"].as_str() { foreign.push(s.to_string()); }
            c14::check(&pos_of(case), rep, &mut rng, &mut foreign);
        }
        _ => panic!("unknown replay {} {}", prop, kind),
    }
}

fn main() {
    let args = Args::parse();
    monlib::quiet_panics();
    let prop = args.cmd.clone();
    let mut rep = Report::new(&prop.to_uppercase());
    if let Some(path) = &args.replay {
        let case = monlib::read_replay(path);
        let case = if case.get("case").is_some() { case["case"].clone() } else { case };
        replay(&prop, &case, &mut rep);
        rep.finish(&args);
        println!("replay: {} violation(s)", rep.violation_count);
        for v in &rep.violations { println!("  {} :: {}", v.sig, v.detail); }
        std::process::exit(if rep.violation_count > 0 { 1 } else { 0 });
    }
    match prop.as_str() {
        "c01" => {
            let cfg = StreamCfg { positions: args.budget(400_000, 4_000_000), max_plies: 400, max_half: 4095, max_full: 1_000_000 };
            let (pe, pd) = if args.thorough { (40, 3) } else { (60, 2) };
            stream::run_carried2(&args, &cfg, &mut rep, &mut |p, rep, rng, carried, carried_uci| {
                c01::check(p, rep, rng, pe, pd);
                if let Some(bb) = carried { c01::check_carried(p, bb, rep, "carried-legal"); }
                if let Some(bb) = carried_uci { c01::check_carried(p, bb, rep, "carried-by-make_uci-legal"); }
            });
            // castling under pressure: every kind of enemy piece (the king included) near or aimed at
            // the start, transit and landing squares, bystanders on the path
            let mut rng = gen::rng(args.seed, args.shard, 1001);
            let n = args.budget(48_000, 800_000) / args.nshards.max(1);
            for _ in 0..n {
                let p = gen::castle_zone_position(&mut rng);
                rep.count("castle_zone_positions");
                c01::check(&p, &mut rep, &mut rng, pe, pd);
                // and one ply later (the opponent's reply changes what is attacked)
                let legal = p.legal_moves();
                if !legal.is_empty() {
                    let m = legal[rng.gen_range(0..legal.len())];
                    let n1 = p.make(m);
                    for m2 in n1.legal_moves().into_iter().take(3) { c01::check(&n1.make(m2), &mut rep, &mut rng, pe, pd); }
                }
            }
        }
        "c02" => {
            let cfg = StreamCfg { positions: args.budget(300_000, 3_000_000), max_plies: 600, max_half: 4095, max_full: 1_000_000 };
            stream::run_carried(&args, &cfg, &mut rep, &mut |p, rep, rng, carried| {
                c02::check(p, rep, rng);
                // the board carried through its own make() over the whole walk (up to 600 plies) must
                // still spell exactly the reference position
                if let Some(bb) = carried {
                    rep.count("carried_board_positions");
                    let want = p.to_fen();
                    // what every user of the board does between two moves: enumerate the legal moves
                    // (which makes and unmakes every pseudo-legal move on this very board)
                    if rng.gen_range(0..2) == 0 { let _ = monlib::guarded_mut(|| bb.generate_legal_moves().len()); }
                    match adapter::fen_of(bb) {
                        Ok(got) => if got != want {
                            rep.violation(&format!("carried-board-drift:{}", adapter::fen_fields_diff(&got, &want)), format!("board carried along a walk spells {} but the rules give {}", got, want), monlib::json!({"kind":"c02","fen":want}));
                        },
                        Err(pm) => rep.violation("carried-board-fen-panic", pm, monlib::json!({"kind":"c02","fen":want})),
                    }
                }
            });
        }
        "c03" => {
            let cfg = StreamCfg { positions: args.budget(300_000, 3_000_000), max_plies: 600, max_half: 4095, max_full: 1_000_000 };
            stream::run(&args, &cfg, &mut rep, &mut |p, rep, rng| c03::check(p, rep, rng));
            let mut rng = gen::rng(args.seed, args.shard, 3);
            if args.thorough {
                // exhaustive 0..4095 on 20 seeds, split over the shards
                if args.scale >= 1.0 { c03::clock_sweep(&mut rep, &mut rng, true, (20 / args.nshards.max(1) as usize).max(1)); }
            } else if args.shard == 0 {
                c03::clock_sweep(&mut rep, &mut rng, false, 6);
            }
        }
        "c04" => c04::run(&args, &mut rep),
        "c05" => {
            let cfg = StreamCfg { positions: args.budget(200_000, 3_000_000), max_plies: 400, max_half: 4095, max_full: 1_000_000 };
            stream::run_carried(&args, &cfg, &mut rep, &mut |p, rep, rng, carried| {
                c05::check(p, rep, rng);
                if let Some(bb) = carried {
                    // the board carried along the walk through its own make()
                    rep.count("carried_board_positions");
                    let (cur, valid) = (bb.is_current_in_check(), bb.is_valid());
                    if cur != p.in_check(p.wtm) || !valid {
                        rep.violation("carried-board-check-state", format!("board carried to {} reports in_check={} valid={}", p.to_fen(), cur, valid), monlib::json!({"kind":"c05","fen":p.to_fen()}));
                    }
                }
            });
            // dedicated check synthesiser + mate/stalemate hunting in low material
            let mut rng = gen::rng(args.seed, args.shard, 5);
            let n = args.budget(200_000, 3_000_000) / args.nshards.max(1);
            for i in 0..n {
                let p = if i % 3 == 2 { gen::mating_material_position(&mut rng) } else if i % 6 == 1 { rep.count("castle_zone_positions"); gen::castle_zone_position(&mut rng) } else { gen::check_position(&mut rng) };
                c05::check(&p, &mut rep, &mut rng);
                rep.count("synthesised_check_positions");
                // steer into mates: play a mating move if there is one
                if i % 3 == 2 {
                    for m in p.legal_moves() {
                        let n = p.make(m);
                        if n.legal_moves().is_empty() { c05::check(&n, &mut rep, &mut rng); }
                    }
                }
            }
        }
        "c06" => {
            let cfg = StreamCfg { positions: args.budget(160_000, 2_000_000), max_plies: 300, max_half: 4095, max_full: 1_000_000 };
            let mut maps = c06::Maps::default();
            // running incremental hashes along the whole walk (as the search threads them down the tree)
            let mut running: Option<(String, u64, u64)> = None;
            stream::run_carried(&args, &cfg, &mut rep, &mut |p, rep, rng, carried| {
                c06::check(p, rep, rng, &mut maps);
                if let Some(bb) = carried {
                    let fen = p.to_fen();
                    let (h, ph) = (bb.calculate_zobrist_hash(), bb.calculate_zobrist_pawn_hash());
                    rep.count("carried_board_positions");
                    if let Ok(fresh) = adapter::load(p) {
                        if (fresh.calculate_zobrist_hash(), fresh.calculate_zobrist_pawn_hash()) != (h, ph) {
                            rep.violation("carried-board-hash-differs-from-fen-load", format!("board carried to {} hashes {:x}, the same position loaded from FEN {:x}", fen, h, fresh.calculate_zobrist_hash()), monlib::json!({"kind":"c06","fen":fen}));
                        }
                    }
                    // continue the running xor if this position follows the previous one by one move
                    let mut next = None;
                    if let Some((prev_fen, rh, rph)) = running.take() {
                        if let Ok(prev) = refchess::Pos::from_fen(&prev_fen) {
                            if let Some(m) = prev.legal_moves().into_iter().find(|m| prev.make(*m) == *p) {
                                if let Ok(pb) = adapter::load(&prev) {
                                    if let Some(mv) = adapter::find_move(&pb, &m.uci()) {
                                        let (dx, dp) = inkayaku_board::Bitboard::zobrist_xor(mv);
                                        let (nh, nph) = (rh ^ dx, rph ^ dp);
                                        rep.count("running_hash_steps");
                                        if (nh, nph) != (h, ph) {
                                            rep.violation("running-incremental-hash-drifts", format!("after {} from {}: running hash {:x}/{:x}, recomputed {:x}/{:x}", m.uci(), prev_fen, nh, nph, h, ph), monlib::json!({"kind":"c06","fen":prev_fen,"move":m.uci()}));
                                            next = Some((fen.clone(), h, ph));
                                        } else {
                                            next = Some((fen.clone(), nh, nph));
                                        }
                                    }
                                }
                            }
                        }
                    }
                    running = Some(next.unwrap_or((fen, h, ph)));
                    c06::node_round_trip(p, bb, rep);
                } else {
                    running = None;
                }
            });
            rep.add("distinct_position_keys", maps.key_to_hash.len() as u64);
            if args.shard == 0 { c06::key_table(&mut rep); }
        }
        "c12" => {
            let cfg = StreamCfg { positions: args.budget(200_000, 3_000_000), max_plies: 200, max_half: 4095, max_full: 1_000_000 };
            stream::run(&args, &cfg, &mut rep, &mut |p, rep, rng| {
                c12::positive(p, rep, rng);
                c12::negative(p, rep, rng);
                if rng.gen_range(0..2) == 0 { c12::negative(p, rep, rng); }
            });
            let mut rng = gen::rng(args.seed, args.shard, 12);
            c12::random_strings(&mut rep, &mut rng, args.budget(400_000, 6_000_000) / args.nshards.max(1));
        }
        "c13" => {
            let cfg = StreamCfg { positions: args.budget(40_000, 600_000), max_plies: 300, max_half: 4095, max_full: 1_000_000 };
            stream::run(&args, &cfg, &mut rep, &mut |p, rep, rng| c13::check(p, rep, rng, false));
            // complete 64x64x6 space at sampled positions (all seeds first)
            let mut rng = gen::rng(args.seed, args.shard, 13);
            let seeds = refchess::seeds::seeds();
            let n = args.budget(320, 4_800) / args.nshards.max(1);
            for i in 0..n {
                let idx = (i * args.nshards + args.shard) as usize;
                let p = if idx < seeds.len() { seeds[idx].clone() } else if rng.gen_bool(0.5) { gen::synth_position(&mut rng) } else {
                    let s = seeds[rng.gen_range(0..seeds.len())].clone();
                    let len = rng.gen_range(1..60);
                    gen::walk(&mut rng, &s, gen::Policy::Tactical, len).0.pop().unwrap()
                };
                c13::check(&p, &mut rep, &mut rng, true);
            }
        }
        "c14" => {
            let cfg = StreamCfg { positions: args.budget(160_000, 2_400_000), max_plies: 300, max_half: 4095, max_full: 1_000_000 };
            let mut foreign: Vec<String> = Vec::new();
            stream::run(&args, &cfg, &mut rep, &mut |p, rep, rng| c14::check(p, rep, rng, &mut foreign));
            let mut rng = gen::rng(args.seed, args.shard, 14);
            let n = args.budget(100_000, 1_600_000) / args.nshards.max(1);
            for i in 0..n {
                let p = if i % 4 == 3 { gen::mating_material_position(&mut rng) } else { gen::disambiguation_position(&mut rng) };
                c14::check(&p, &mut rep, &mut rng, &mut foreign);
                rep.count("synthesised_san_positions");
            }
        }
        other => {
            eprintln!("unknown monitor {:?}", other);
            std::process::exit(2);
        }
    }
    rep.extra.insert("seed".into(), json!(args.seed));
    rep.finish(&args);
}
