//! C02 — playing a move produces exactly the successor position the rules define.

use monlib::{guarded_mut, json, panic_sig, mix, Report};
use rand::rngs::StdRng;
use rand::Rng;
use refchess::*;

use crate::adapter::*;
use crate::c01::move_kind;

pub fn check(p: &Pos, rep: &mut Report, rng: &mut StdRng) {
    let fen = p.to_fen();
    for m in p.legal_moves() {
        rep.eval();
        let u = m.uci();
        let replay = json!({"kind":"c02","fen":fen,"move":u});
        let want = p.make(m).to_fen();
        let mut others: Option<(Option<Result<String, String>>, Option<Result<String, String>>)> = None;
        let r = guarded_mut(|| {
            let mut bb = load(p)?;
            let mv = match find_move(&bb, &u) {
                Some(mv) => mv,
                None => return Ok(None),
            };
            bb.make(mv);
            let by_make = fen_of(&bb);
            // the same move played through the other two public ways to play it: the text form
            // (`make_uci`, which the engine's position command and the bot use), and — for captures
            // and promotions — the Move value of the capture/promotion-only generator (what the
            // quiescence search plays)
            let mut b2 = load(p)?;
            let by_text = match b2.make_uci(&u) { Ok(()) => Some(fen_of(&b2)), Err(_) => None };
            let mut b3 = load(p)?;
            let noisy = b3.generate_pseudo_legal_non_quiescent_moves().into_iter().find(|x| x.to_uci_string() == u);
            let by_noisy = noisy.map(|x| { b3.make(x); fen_of(&b3) });
            others = Some((by_text, by_noisy));
            Ok::<_, String>(Some(by_make))
        });
        let kind = move_kind(p, &u);
        match r {
            Err(pm) => rep.violation(&format!("make-{}", panic_sig(&pm)), format!("make({}) panicked in {}: {}", u, fen, pm), replay),
            Ok(Err(e)) => rep.violation("load-failed", e, replay),
            Ok(Ok(None)) => rep.inconclusive("legal move not offered by the generator (C01 matter)"),
            Ok(Ok(Some(Err(pm)))) => rep.violation(&format!("fen-after-make-{}", panic_sig(&pm)), format!("FEN writer panicked after make({}) in {}: {}", u, fen, pm), replay),
            Ok(Ok(Some(Ok(got)))) => {
                if got != want {
                    let d = fen_fields_diff(&got, &want);
                    rep.violation(&format!("successor:{}:{}", d, kind), format!("{} + {}: code {} | rules {}", fen, u, got, want), replay);
                }
            }
        }
        if let Some((by_text, by_noisy)) = others {
            match by_text {
                None => rep.violation(&format!("make_uci-refuses-legal-move:{}", kind), format!("make_uci({}) refused in {}", u, fen), json!({"kind":"c02","fen":fen,"move":u})),
                Some(Err(pm)) => rep.violation("fen-after-make_uci-panic", pm, json!({"kind":"c02","fen":fen,"move":u})),
                Some(Ok(got)) => if got != want {
                    rep.violation(&format!("successor-by-make_uci:{}:{}", fen_fields_diff(&got, &want), kind), format!("{} + make_uci({}): code {} | rules {}", fen, u, got, want), json!({"kind":"c02","fen":fen,"move":u}));
                },
            }
            if let Some(r3) = by_noisy {
                rep.count("successors_by_capture_generator_moves");
                match r3 {
                    Err(pm) => rep.violation("fen-after-capture-generator-move-panic", pm, json!({"kind":"c02","fen":fen,"move":u})),
                    Ok(got) => if got != want {
                        rep.violation(&format!("successor-by-capture-generator-move:{}:{}", fen_fields_diff(&got, &want), kind), format!("{} + {} (Move of the capture/promotion generator): code {} | rules {}", fen, u, got, want), json!({"kind":"c02","fen":fen,"move":u}));
                    },
                }
            }
        }
        // non-trivial: special move, rights change, clock reset
        let n = p.make(m);
        let rights_changed = n.castle != p.castle;
        if kind == "castle" || kind == "ep" || kind == "promotion" || rights_changed || n.half == 0 {
            rep.distinct_hash(mix(p.key().h64(), (m.from as u64) << 16 | (m.to as u64) << 8 | m.promo as u64));
        }
        rep.count(&format!("kind_{}", kind));
        if rights_changed {
            rep.count("rights_changed");
            if p.b[m.to as usize].abs() == R && [0u8, 7, 56, 63].contains(&m.to) {
                rep.count("rook_captured_on_home_square");
            }
        }
        if p.half >= 100 { rep.count("halfmove_ge_100"); }
        if p.half >= 128 { rep.count("halfmove_ge_128"); }
        if p.full >= 2500 { rep.count("fullmove_ge_2500"); }
        if n.ep.is_some() { rep.count("double_push_sets_ep"); }
        if rep.samples.len() < 6 && kind != "quiet" && rng.gen_range(0..200) == 0 {
            rep.sample(json!({"fen": fen, "move": u, "successor": want}));
        }
    }
}
