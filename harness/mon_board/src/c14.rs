//! C14 — SAN output is standard, unambiguous and round-trips through the SAN parser.

use monlib::{guarded_mut, json, panic_sig, Report};
use rand::rngs::StdRng;
use rand::Rng;
use refchess::*;

use crate::adapter::*;
use crate::c01::move_kind;

pub fn check(p: &Pos, rep: &mut Report, rng: &mut StdRng, foreign: &mut Vec<String>) {
    let fen = p.to_fen();
    let legal = p.legal_moves();
    let legal_set: std::collections::BTreeSet<String> = legal.iter().map(|m| m.uci()).collect();
    let wants: Vec<(String, String, u8)> = legal.iter().map(|m| (m.uci(), san::san(p, *m), san::disambiguation_kind(p, *m))).collect();
    let mut foreign_now: Vec<String> = foreign.iter().rev().take(6).cloned().collect();
    // castling text is standard SAN in every position; where no castle is legal it denotes nothing
    foreign_now.push("O-O".to_string());
    foreign_now.push("O-O-O".to_string());
    let mut handle_mismatch: Vec<(String, String, String)> = Vec::new();
    let r = guarded_mut(|| {
        let mut bb = load(p)?;
        let before = snap(&bb);
        let mut out = Vec::new();
        for (u, want, _) in &wants {
            let got = guarded_mut(|| bb.uci_to_pgn(u).map_err(|e| format!("{:?}", e)));
            // parse back: the code's own text, the reference text, and the reference text without suffix
            let mut backs = Vec::new();
            let mut texts = vec![want.clone(), want.trim_end_matches(|c| c == '+' || c == '#').to_string()];
            if let Ok(Ok(g)) = &got { texts.push(g.clone()); }
            for t in texts {
                let b = guarded_mut(|| bb.pgn_to_bb(&t).map(|m| m.to_uci_string()).map_err(|_| ()));
                backs.push((t, b));
            }
            // the other way to ask for the same text: the board's own Move value
            let via_handle = guarded_mut(|| {
                let mv = bb.generate_pseudo_legal_moves().into_iter().find(|m| m.to_uci_string() == *u);
                mv.map(|m| m.to_pgn_string(&mut bb).map_err(|e| format!("{:?}", e)))
            });
            if let (Ok(Ok(g)), Ok(Some(h))) = (&got, &via_handle) {
                if h.as_ref().ok() != Some(g) { handle_mismatch.push((u.clone(), g.clone(), format!("{:?}", h))); }
            }
            let d = before.diff(&snap(&bb));
            if !d.is_empty() { bb = load(p)?; }
            out.push((u.clone(), got, backs, d));
        }
        let mut f_out = Vec::new();
        for t in &foreign_now {
            let b = guarded_mut(|| bb.pgn_to_bb(t).map(|m| m.to_uci_string()).map_err(|_| ()));
            let d = before.diff(&snap(&bb));
            if !d.is_empty() { bb = load(p)?; }
            f_out.push((t.clone(), b, d));
        }
        Ok::<_, String>((out, f_out))
    });
    let (out, f_out) = match r {
        Err(pm) => { rep.violation(&format!("san-{}", panic_sig(&pm)), format!("panicked in {}: {}", fen, pm), json!({"kind":"c14","fen":fen})); return; }
        Ok(Err(e)) => { rep.violation("load-failed", e, json!({"kind":"c14","fen":fen})); return; }
        Ok(Ok(o)) => o,
    };
    for (u, g, h) in handle_mismatch {
        rep.violation("to_pgn_string-differs-from-uci_to_pgn", format!("{} in {}: uci_to_pgn = {}, Move::to_pgn_string = {}", u, fen, g, h), json!({"kind":"c14","fen":fen,"move":u}));
    }
    for ((u, got, backs, d), (_, want, dis)) in out.into_iter().zip(wants.iter()) {
        rep.eval();
        let replay = json!({"kind":"c14","fen":fen,"move":u});
        let kind = move_kind(p, &u);
        let m = Mv::from_uci(&u).unwrap();
        let n = p.make(m);
        let suffix = if want.ends_with('#') { "mate" } else if want.ends_with('+') { "check" } else if n.legal_moves().is_empty() { "stalemate" } else { "plain" };
        rep.count(&format!("disambiguation_{}", ["none", "file", "rank", "both"][*dis as usize]));
        rep.count(&format!("suffix_{}", suffix));
        rep.count(&format!("kind_{}", kind));
        if *dis > 0 || suffix != "plain" || kind != "quiet" {
            rep.distinct_hash(monlib::mix(p.key().h64(), monlib::fnv(u.as_bytes())));
        }
        match got {
            Err(pm) => rep.violation(&format!("uci_to_pgn-{}", panic_sig(&pm)), format!("uci_to_pgn({}) panicked in {}: {}", u, fen, pm), replay.clone()),
            Ok(Err(e)) => rep.violation("uci_to_pgn-rejects-legal", format!("uci_to_pgn({}) = Err({}) in {}", u, e, fen), replay.clone()),
            Ok(Ok(g)) => {
                if &g != want {
                    let what = if g.trim_end_matches(|c| c == '+' || c == '#') != want.trim_end_matches(|c| c == '+' || c == '#') {
                        format!("body:disambiguation-{}:{}", ["none", "file", "rank", "both"][*dis as usize], kind)
                    } else {
                        format!("suffix:{}", suffix)
                    };
                    rep.violation(&format!("san-text:{}", what), format!("{} in {}: code {:?}, standard {:?}", u, fen, g, want), replay.clone());
                }
            }
        }
        if !d.is_empty() {
            rep.violation("san-conversion-side-effect", format!("SAN conversion of {} changed {} of {}", u, d, fen), replay.clone());
        }
        for (t, b) in backs {
            match b {
                Err(pm) => rep.violation(&format!("pgn_to_bb-{}", panic_sig(&pm)), format!("pgn_to_bb({:?}) panicked in {}: {}", t, fen, pm), replay.clone()),
                Ok(Err(())) => {
                    // only the *standard* text (with or without suffix) is demanded to parse
                    if &t == want || t == want.trim_end_matches(|c| c == '+' || c == '#') {
                        rep.violation(&format!("pgn_to_bb-rejects-standard-san:disambiguation-{}:{}", ["none", "file", "rank", "both"][*dis as usize], kind), format!("pgn_to_bb({:?}) = Err in {} (move {})", t, fen, u), replay.clone());
                    }
                }
                Ok(Ok(back)) => {
                    if back != u && (&t == want || t == want.trim_end_matches(|c| c == '+' || c == '#')) {
                        rep.violation("pgn_to_bb-wrong-move", format!("pgn_to_bb({:?}) = {} in {}, expected {}", t, back, fen, u), replay.clone());
                    }
                }
            }
        }
    }
    // SAN text from a different position: Err, or some legal move; never a panic, never a side effect
    for (t, b, d) in f_out {
        rep.eval();
        rep.count("foreign_san_probes");
        let replay = json!({"kind":"c14-foreign","fen":fen,"san":t});
        match b {
            Err(pm) => rep.violation(&format!("pgn_to_bb-{}", panic_sig(&pm)), format!("pgn_to_bb({:?}) panicked in {}: {}", t, fen, pm), replay),
            Ok(Ok(mv)) if !legal_set.contains(&mv) => rep.violation("pgn_to_bb-returns-illegal-move", format!("pgn_to_bb({:?}) = {} which is not legal in {}", t, mv, fen), replay),
            Ok(b) => {
                if !d.is_empty() {
                    rep.violation("pgn_to_bb-side-effect", format!("pgn_to_bb({:?}) changed {} of {}", t, d, fen), replay.clone());
                }
                // a legal move was returned: the text has to denote it (piece, target, promotion,
                // castle kind and every source hint written in the text agree with the move);
                // a text that denotes no legal move here has to be an error
                if let Ok(mv) = b {
                    rep.count("foreign_san_accepted");
                    if let Some(why) = Mv::from_uci(&mv).and_then(|m| not_denoted(p, &t, m)) {
                        rep.violation(&format!("pgn_to_bb-text-does-not-denote-move:{}", why), format!("pgn_to_bb({:?}) = {} in {}: the text does not denote that move ({})", t, mv, fen, why), replay);
                    }
                } else {
                    rep.count("foreign_san_rejected");
                }
            }
        }
    }
    for (_, w, _) in wants.iter().take(3) {
        foreign.push(w.clone());
    }
    if foreign.len() > 64 { foreign.drain(0..32); }
    if rep.samples.len() < 6 && rng.gen_range(0..100) == 0 {
        if let Some((u, w, d)) = wants.iter().find(|w| w.2 > 0) {
            rep.sample(json!({"fen": fen, "move": u, "san": w, "disambiguation": d}));
        }
    }
}

/// Why the SAN text `t` cannot denote the legal move `m` of `p` (None: it can). Only what the text
/// says is compared: castle kind, piece letter, target square, promotion piece and the source file /
/// rank / square written as disambiguation; capture mark and check suffix are not judged.
pub fn not_denoted(p: &Pos, t: &str, m: Mv) -> Option<&'static str> {
    let body = t.trim_end_matches(|c| c == '+' || c == '#' || c == '!' || c == '?');
    let piece = p.b[m.from as usize].abs();
    if body == "O-O" || body == "O-O-O" {
        if !p.is_castle(m) { return Some("castle-text-for-non-castle"); }
        let king_side = file_of(m.to) > file_of(m.from);
        return if king_side == (body == "O-O") { None } else { Some("castle-wing") };
    }
    // "Kg1" for a castle is accepted by the code (king, target g1: what the text says does agree
    // with the move); that leniency is not judged
    if !body.is_ascii() { return Some("non-ascii"); }
    let (body, promo) = match body.find('=') {
        Some(i) => (&body[..i], match &body[i + 1..] { "N" => N, "B" => B, "R" => R, "Q" => Q, _ => return Some("promotion-letter") }),
        None => (body, 0),
    };
    if promo != m.promo { return Some("promotion"); }
    let (letter, rest) = match body.chars().next() {
        Some('N') => (N, &body[1..]), Some('B') => (B, &body[1..]), Some('R') => (R, &body[1..]),
        Some('Q') => (Q, &body[1..]), Some('K') => (K, &body[1..]), _ => (P, body),
    };
    if letter != piece { return Some("piece"); }
    if rest.len() < 2 { return Some("shape"); }
    let (hint, target) = rest.split_at(rest.len() - 2);
    if sq_from_name(target) != Some(m.to) { return Some("target"); }
    for c in hint.chars() {
        match c {
            'x' => {}
            'a'..='h' => if (c as u8 - b'a') as i32 != file_of(m.from) { return Some("source-file"); },
            '1'..='8' => if (c as u8 - b'1') as i32 != rank_of(m.from) { return Some("source-rank"); },
            _ => return Some("shape"),
        }
    }
    None
}
