//! C15 — UCI command text is parsed faithfully and never crashes the reader.

use std::str::FromStr;
use std::time::Duration;

use inkayaku_uci::parser::CommandParser;
use inkayaku_uci::{Go, UciCommand, UciMove};
use monlib::{guarded, json, panic_sig, Report};
use rand::rngs::StdRng;
use rand::seq::SliceRandom;
use rand::Rng;
use refchess::gen;
use refchess::*;

use crate::strgen;

/// Abstract command values, rendered by our own writer.
#[derive(Clone, Debug, PartialEq)]
pub enum Cmd {
    Uci,
    IsReady,
    UciNewGame,
    Stop,
    PonderHit,
    Quit,
    Debug(bool),
    SetOption { name: Vec<String>, value: Option<Vec<String>> },
    RegisterLater,
    Register { name: Vec<String>, code: Vec<String> },
    Position { fen: Option<Vec<String>>, moves_keyword: bool, moves: Vec<String> },
    Go(Vec<GoParam>),
}

#[derive(Clone, Debug, PartialEq)]
pub enum GoParam {
    SearchMoves(Vec<String>),
    Ponder,
    WTime(i64),
    BTime(i64),
    WInc(i64),
    BInc(i64),
    MovesToGo(u64),
    Depth(u64),
    Nodes(u64),
    Mate(u64),
    MoveTime(i64),
    Infinite,
}

fn sp(rng: &mut StdRng) -> String {
    let max = if rng.gen_bool(0.8) { 1 } else { 5 };
    " ".repeat(rng.gen_range(1..=max))
}

pub fn render(rng: &mut StdRng, c: &Cmd) -> String {
    let mut toks: Vec<String> = Vec::new();
    match c {
        Cmd::Uci => toks.push("uci".into()),
        Cmd::IsReady => toks.push("isready".into()),
        Cmd::UciNewGame => toks.push("ucinewgame".into()),
        Cmd::Stop => toks.push("stop".into()),
        Cmd::PonderHit => toks.push("ponderhit".into()),
        Cmd::Quit => toks.push("quit".into()),
        Cmd::Debug(b) => {
            toks.push("debug".into());
            toks.push(if *b { "on" } else { "off" }.into());
        }
        Cmd::SetOption { name, value } => {
            toks.push("setoption".into());
            toks.push("name".into());
            toks.extend(name.iter().cloned());
            if let Some(v) = value {
                toks.push("value".into());
                toks.extend(v.iter().cloned());
            }
        }
        Cmd::RegisterLater => {
            toks.push("register".into());
            toks.push("later".into());
        }
        Cmd::Register { name, code } => {
            toks.push("register".into());
            toks.push("name".into());
            toks.extend(name.iter().cloned());
            toks.push("code".into());
            toks.extend(code.iter().cloned());
        }
        Cmd::Position { fen, moves_keyword, moves } => {
            toks.push("position".into());
            match fen {
                None => toks.push("startpos".into()),
                Some(f) => {
                    toks.push("fen".into());
                    toks.extend(f.iter().cloned());
                }
            }
            if *moves_keyword {
                toks.push("moves".into());
                toks.extend(moves.iter().cloned());
            }
        }
        Cmd::Go(ps) => {
            toks.push("go".into());
            for p in ps {
                match p {
                    GoParam::SearchMoves(ms) => {
                        toks.push("searchmoves".into());
                        toks.extend(ms.iter().cloned());
                    }
                    GoParam::Ponder => toks.push("ponder".into()),
                    GoParam::WTime(v) => { toks.push("wtime".into()); toks.push(v.to_string()); }
                    GoParam::BTime(v) => { toks.push("btime".into()); toks.push(v.to_string()); }
                    GoParam::WInc(v) => { toks.push("winc".into()); toks.push(v.to_string()); }
                    GoParam::BInc(v) => { toks.push("binc".into()); toks.push(v.to_string()); }
                    GoParam::MovesToGo(v) => { toks.push("movestogo".into()); toks.push(v.to_string()); }
                    GoParam::Depth(v) => { toks.push("depth".into()); toks.push(v.to_string()); }
                    GoParam::Nodes(v) => { toks.push("nodes".into()); toks.push(v.to_string()); }
                    GoParam::Mate(v) => { toks.push("mate".into()); toks.push(v.to_string()); }
                    GoParam::MoveTime(v) => { toks.push("movetime".into()); toks.push(v.to_string()); }
                    GoParam::Infinite => toks.push("infinite".into()),
                }
            }
        }
    }
    let mut s = String::new();
    if rng.gen_bool(0.2) { s.push_str(&sp(rng)); }
    for (i, t) in toks.iter().enumerate() {
        if i > 0 { s.push_str(&sp(rng)); }
        s.push_str(t);
    }
    if rng.gen_bool(0.2) { s.push_str(&sp(rng)); }
    if rng.gen_bool(0.1) { s.push('\n'); }
    s
}

fn mv_text(m: &UciMove) -> String {
    format!("{}{}{}", m.source.fen, m.target.fen, m.promote_to.as_ref().map_or(String::new(), |p| p.fen.to_string()))
}

fn dur(v: i64) -> Option<Duration> {
    Some(Duration::from_millis(v.max(0) as u64))
}

/// Compare the parsed command with the abstract value; returns a description of the first difference.
pub fn differs(c: &Cmd, got: &UciCommand) -> Option<String> {
    let join = |v: &Vec<String>| v.join(" ");
    match (c, got) {
        (Cmd::Uci, UciCommand::Uci) | (Cmd::IsReady, UciCommand::IsReady) | (Cmd::UciNewGame, UciCommand::UciNewGame) | (Cmd::Stop, UciCommand::Stop) | (Cmd::PonderHit, UciCommand::PonderHit) | (Cmd::Quit, UciCommand::Quit) | (Cmd::RegisterLater, UciCommand::RegisterLater) => None,
        (Cmd::Debug(b), UciCommand::SetDebug { debug }) => if b == debug { None } else { Some("debug flag".into()) },
        (Cmd::SetOption { name, value: None }, UciCommand::SetOption { name: n }) => if &join(name) == n { None } else { Some(format!("option name {:?}", n)) },
        (Cmd::SetOption { name, value: Some(v) }, UciCommand::SetOptionValue { name: n, value: gv }) => if &join(name) == n && &join(v) == gv { None } else { Some(format!("option {:?}={:?}", n, gv)) },
        (Cmd::Register { name, code }, UciCommand::Register { name: n, code: gc }) => if &join(name) == n && &join(code) == gc { None } else { Some(format!("register {:?} {:?}", n, gc)) },
        (Cmd::Position { fen, moves, .. }, UciCommand::PositionFrom { fen: gf, moves: gm }) => {
            let want_fen = match fen { None => "rnbqkbnr/pppppppp/8/8/8/8/PPPPPPPP/RNBQKBNR w KQkq - 0 1".to_string(), Some(f) => join(f) };
            if gf.fen != want_fen { return Some(format!("fen {:?} != {:?}", gf.fen, want_fen)); }
            let gms: Vec<String> = gm.iter().map(mv_text).collect();
            if &gms != moves { return Some(format!("moves {:?}", gms.iter().zip(moves.iter()).position(|(a, b)| a != b))); }
            None
        }
        (Cmd::Go(ps), UciCommand::Go { go }) => {
            let mut want = Go::default();
            let mut want_sm: Vec<String> = Vec::new();
            for p in ps {
                match p {
                    GoParam::SearchMoves(ms) => want_sm = ms.clone(),
                    GoParam::Ponder => want.ponder = true,
                    GoParam::WTime(v) => want.white_time = dur(*v),
                    GoParam::BTime(v) => want.black_time = dur(*v),
                    GoParam::WInc(v) => want.white_increment = dur(*v),
                    GoParam::BInc(v) => want.black_increment = dur(*v),
                    GoParam::MovesToGo(v) => want.moves_to_go = Some(*v),
                    GoParam::Depth(v) => want.depth = Some(*v),
                    GoParam::Nodes(v) => want.nodes = Some(*v),
                    GoParam::Mate(v) => want.mate = Some(*v),
                    GoParam::MoveTime(v) => want.move_time = dur(*v),
                    GoParam::Infinite => want.infinite = true,
                }
            }
            let gsm: Vec<String> = go.search_moves.iter().map(mv_text).collect();
            if gsm != want_sm { return Some("searchmoves".into()); }
            let fields = [
                ("ponder", go.ponder == want.ponder), ("wtime", go.white_time == want.white_time), ("btime", go.black_time == want.black_time),
                ("winc", go.white_increment == want.white_increment), ("binc", go.black_increment == want.black_increment), ("movestogo", go.moves_to_go == want.moves_to_go),
                ("depth", go.depth == want.depth), ("nodes", go.nodes == want.nodes), ("mate", go.mate == want.mate), ("movetime", go.move_time == want.move_time), ("infinite", go.infinite == want.infinite),
            ];
            fields.iter().find(|f| !f.1).map(|f| format!("go field {}", f.0))
        }
        _ => Some(format!("different command kind: {:?}", got).chars().take(80).collect()),
    }
}

fn words(rng: &mut StdRng, forbidden: &[&str]) -> Vec<String> {
    let pool = ["Hash", "Threads", "Style", "Nalimov", "Path", "c:\\x", "128", "true", "Stefan", "MK", "4359874324", "UCI_Elo", "ü", "a=b", "go", "uci", "name", "code", "value", "later", "moves", "fen", "on"];
    let n = rng.gen_range(1..=4);
    let mut v = Vec::new();
    while v.len() < n {
        let w = *pool.choose(rng).unwrap();
        if !forbidden.contains(&w) { v.push(w.to_string()); }
    }
    v
}

fn num_i(rng: &mut StdRng) -> i64 {
    match rng.gen_range(0..8) { 0 => 0, 1 => 1, 2 => 1 << 31, 3 => i64::MAX, 4 => 2, 5 => 60_000, _ => rng.gen_range(0..10_000_000) }
}
fn num_u(rng: &mut StdRng) -> u64 {
    match rng.gen_range(0..8) { 0 => 0, 1 => 1, 2 => 1 << 31, 3 => i64::MAX as u64, 4 => u64::MAX, _ => rng.gen_range(0..1_000_000) }
}

fn random_moves(rng: &mut StdRng, start: &Pos, max: usize) -> Vec<String> {
    // mostly 0..max plies; a few very long games (lines of more than 512 / 1024 tokens)
    let long = rng.gen_range(0..40) == 0;
    let n = if long { rng.gen_range(505..1300) } else if rng.gen_bool(0.2) { 0 } else { rng.gen_range(0..=max) };
    let policy = if long { gen::Policy::Shuffle } else { gen::POLICIES[rng.gen_range(0..3)] };
    gen::walk(rng, start, policy, n).1.iter().map(|m| m.uci()).collect()
}

pub fn random_cmd(rng: &mut StdRng, starts: &mut gen::Starts) -> Cmd {
    match rng.gen_range(0..20) {
        0 => Cmd::Uci,
        1 => Cmd::IsReady,
        2 => Cmd::UciNewGame,
        3 => Cmd::Stop,
        4 => Cmd::PonderHit,
        5 => Cmd::Quit,
        6 => Cmd::Debug(rng.gen_bool(0.5)),
        7 => {
            let name = words(rng, &["value"]);
            let value = if rng.gen_bool(0.6) { Some(words(rng, &[])) } else { None };
            Cmd::SetOption { name, value }
        }
        8 => if rng.gen_bool(0.3) { Cmd::RegisterLater } else { Cmd::Register { name: { let mut w = words(rng, &["code", "later"]); if w[0] == "later" { w[0] = "x".into(); } w }, code: words(rng, &[]) } },
        9..=13 => {
            let p = starts.next(rng);
            let use_fen = rng.gen_bool(0.7);
            let base = if use_fen { p.clone() } else { Pos::startpos() };
            let moves = random_moves(rng, &base, 200);
            let fen = if use_fen {
                let f = if rng.gen_bool(0.3) { refchess::fen::write4(&p) } else { p.to_fen() };
                Some(f.split(' ').map(|s| s.to_string()).collect())
            } else { None };
            let moves_keyword = !moves.is_empty() || rng.gen_bool(0.5);
            Cmd::Position { fen, moves_keyword, moves }
        }
        _ => {
            let mut all: Vec<GoParam> = vec![
                GoParam::Ponder, GoParam::WTime(num_i(rng)), GoParam::BTime(num_i(rng)), GoParam::WInc(num_i(rng)), GoParam::BInc(num_i(rng)),
                GoParam::MovesToGo(num_u(rng)), GoParam::Depth(num_u(rng)), GoParam::Nodes(num_u(rng)), GoParam::Mate(num_u(rng)), GoParam::MoveTime(num_i(rng)), GoParam::Infinite,
            ];
            let p = starts.next(rng);
            let mut sm: Vec<String> = p.legal_moves().iter().map(|m| m.uci()).collect();
            sm.shuffle(rng);
            sm.truncate(rng.gen_range(0..=6));
            all.push(GoParam::SearchMoves(sm));
            all.shuffle(rng);
            let k = match rng.gen_range(0..4) { 0 => 0, 1 => all.len(), _ => rng.gen_range(0..=all.len()) };
            all.truncate(k);
            Cmd::Go(all)
        }
    }
}

fn parse(line: &str) -> Result<Result<UciCommand, String>, String> {
    guarded(|| CommandParser::new(line).parse().map_err(|e| format!("{:?}", e)))
}

pub fn positive(rng: &mut StdRng, starts: &mut gen::Starts, rep: &mut Report) {
    let c = random_cmd(rng, starts);
    let line = render(rng, &c);
    rep.eval();
    let kind = format!("{:?}", c).split(|ch: char| !ch.is_alphanumeric()).next().unwrap_or("").to_string();
    rep.count(&format!("positive_{}", kind));
    if let Cmd::Go(ps) = &c { rep.max("max_go_params", ps.len() as u64); rep.distinct_str(&format!("{:?}", ps.iter().map(|p| std::mem::discriminant(p)).collect::<Vec<_>>())); }
    if let Cmd::Position { moves, .. } = &c { rep.max("max_position_moves", moves.len() as u64); if moves.len() > 512 { rep.count("positive_lines_with_more_than_512_moves"); } }
    let replay = json!({"kind":"c15-line","line":line});
    match parse(&line) {
        Err(pm) => rep.violation(&format!("parse-{}", panic_sig(&pm)), format!("parser panicked on {:?}: {}", line, pm), replay),
        Ok(Err(e)) => rep.violation(&format!("rejects-wellformed:{}", kind), format!("{:?} -> Err({})", line, e), replay),
        Ok(Ok(got)) => {
            if let Some(d) = differs(&c, &got) {
                rep.violation(&format!("misparsed:{}:{}", kind, d.split(' ').take(3).collect::<Vec<_>>().join("-")), format!("{:?} parsed as {:?}: {}", line, got, d).chars().take(600).collect(), replay);
            }
        }
    }
    if rep.samples.len() < 5 && rng.gen_range(0..2000) == 0 {
        rep.sample(json!({"line": line}));
    }
}

/// lines with an injected fault of a listed class: must parse to Err
pub fn negative(rng: &mut StdRng, starts: &mut gen::Starts, rep: &mut Report) {
    let bad_move = |rng: &mut StdRng| -> String {
        ["i2e4", "e2e9", "e2e", "e2", "e", "e2e4x", "E2E4", "e2e0", "22e4", "a1a9", "é2e4", "e2é4", "----", "e2e4٣",
         // characters that Unicode case mapping or digit classes fold onto ASCII ones: not UCI move text
         "e7e8\u{212A}", "e7e8ｑ", "e7e8Ｑ", "e7ｅ8", "e7e８", "a7a8ſ", "a7a8ı", "\u{212A}7e8", "e7e8\u{0130}", "e7e8\u{1E9E}"].choose(rng).unwrap().to_string()
    };
    let bad_num = |rng: &mut StdRng| -> String { ["x", "1.5", "", "١٢", "1e3", "0x10", "99999999999999999999999", "--1", "1_000"].choose(rng).unwrap().to_string() };
    let p = starts.next(rng);
    let fenp = p.to_fen();
    let (class, line): (&str, String) = match rng.gen_range(0..16) {
        0 => ("unknown-first-word", format!("{} {}", ["xyz", "UCI", "Go", "POSITION", "isReady", "ucí", "go!", "stopp", "q", "position:", "ｇｏ", "debug_on"].choose(rng).unwrap(), ["", "depth 3", "startpos", "on"].choose(rng).unwrap())),
        1 => ("missing-parameter", ["debug", "position", "position fen", "go depth", "go wtime", "go movetime", "setoption", "setoption name", "register", "register name", "go nodes", "go mate", "go movestogo", "go winc", "go binc", "go btime", "register name a b", "register name x code"].choose(rng).unwrap().to_string()),
        2 => ("bad-number", format!("go {} {}", ["depth", "nodes", "mate", "movestogo", "wtime", "btime", "winc", "binc", "movetime"].choose(rng).unwrap(), { let b = bad_num(rng); if b.is_empty() { "x".to_string() } else { b } })),
        3 => ("negative-count", format!("go {} -{}", ["depth", "nodes", "mate", "movestogo"].choose(rng).unwrap(), rng.gen_range(1..100))),
        4 => ("out-of-range-number", format!("go {} {}", ["depth", "nodes", "wtime", "movetime"].choose(rng).unwrap(), ["18446744073709551616", "9223372036854775808000", "-9223372036854775809"].choose(rng).unwrap())),
        5 => ("bad-move-in-position", format!("position startpos moves e2e4 {} e7e5", bad_move(rng))),
        6 => ("bad-move-in-position", format!("position fen {} moves {}", fenp, bad_move(rng))),
        7 => ("bad-move-in-searchmoves", format!("go searchmoves e2e4 {} depth 3", bad_move(rng))),
        8 => ("bad-fen", {
            let mut f: Vec<String> = fenp.split(' ').map(|s| s.to_string()).collect();
            match rng.gen_range(0..6) {
                0 => f[0] = f[0].replacen('/', "", 1),
                1 => f[1] = "x".into(),
                2 => f[2] = "KQxq".into(),
                3 => f[3] = "e9".into(),
                4 => f.truncate(3),
                _ => f[0] = format!("{}P", f[0]),
            }
            format!("position fen {} moves", f.join(" "))
        }),
        9 => ("bad-fen", "position fen moves e2e4".to_string()),
        10 => ("duplicated-go-parameter", {
            let k = ["depth", "wtime", "btime", "winc", "binc", "nodes", "mate", "movetime", "movestogo"].choose(rng).unwrap();
            format!("go {} 5 {} {} 6", k, ["", "infinite", "ponder", "nodes 7"].choose(rng).unwrap(), k).replace("nodes 7 nodes", "mate 7 nodes")
        }),
        11 => ("duplicated-go-parameter", format!("go {0} depth 2 {0}", ["infinite", "ponder"].choose(rng).unwrap())),
        12 => ("bad-debug-argument", format!("debug {}", ["On", "true", "1", "yes", "onn"].choose(rng).unwrap())),
        13 => ("bad-position-keyword", format!("position {}", ["start", "startposs moves e2e4", "FEN 8/8/8/8/8/8/8/8 w - - 0 1", "moves e2e4"].choose(rng).unwrap())),
        14 => ("unknown-go-token", format!("go depth 3 {} 5", ["deep", "time", "wtimee", "searchmove"].choose(rng).unwrap())),
        _ => ("bad-setoption", format!("setoption {} Hash", ["nam", "value", "Name"].choose(rng).unwrap())),
    };
    rep.eval();
    rep.count(&format!("negative_{}", class));
    rep.distinct_str(&line);
    let replay = json!({"kind":"c15-line","line":line, "fault": class});
    match parse(&line) {
        Err(pm) => rep.violation(&format!("parse-{}", panic_sig(&pm)), format!("parser panicked on {:?}: {}", line, pm), replay),
        Ok(Ok(got)) => rep.violation(&format!("accepts-faulty:{}", class), format!("{:?} ({}) parsed as {:?}", line, class, got).chars().take(500).collect(), replay),
        Ok(Err(_)) => {}
    }
}

/// anything at all: must not panic
pub fn fuzz(rng: &mut StdRng, starts: &mut gen::Starts, rep: &mut Report) {
    let line = match rng.gen_range(0..6) {
        0 => strgen::random_utf8(rng, 80),
        1 | 2 => { let c = random_cmd(rng, starts); let l = render(rng, &c); strgen::mutate(rng, &l, b"abcdefgh12345678 qrnkgopsitdwmv") }
        3 => { let c = random_cmd(rng, starts); let l = render(rng, &c); let a = strgen::mutate(rng, &l, b"abcdefgh12345678 qrnk"); strgen::mutate(rng, &a, b"abcdefgh12345678 qrnk") }
        4 => format!("{} {}", ["go", "position", "setoption", "register", "debug", "position fen", "position startpos moves", "go searchmoves"].choose(rng).unwrap(), strgen::random_utf8(rng, 40)),
        _ => { let n = rng.gen_range(1000..20000); format!("position startpos moves {}", "e2e4 ".repeat(n)) }
    };
    rep.eval();
    rep.count("fuzz_lines");
    if let Err(pm) = parse(&line) {
        rep.violation(&format!("parse-{}", panic_sig(&pm)), format!("parser panicked on {:?}: {}", line.chars().take(200).collect::<String>(), pm), json!({"kind":"c15-line","line":line}));
    }
    // move tokens on their own
    let tok = match rng.gen_range(0..4) {
        0 => strgen::random_utf8(rng, 6),
        1 => strgen::mutate(rng, "e7e8q", b"abcdefgh12345678qrbnkABCH09"),
        2 => {
            // a well-formed move with one character replaced by a look-alike that case mapping / digit
            // classes fold onto an ASCII letter or digit
            let base: Vec<char> = format!("{}{}{}{}{}", (b'a' + rng.gen_range(0..8u8)) as char, rng.gen_range(1..9), (b'a' + rng.gen_range(0..8u8)) as char, rng.gen_range(1..9), ["", "q", "r", "b", "n", "k", "p"].choose(rng).unwrap()).chars().collect();
            let i = rng.gen_range(0..base.len());
            let c = *['\u{212A}', '\u{212B}', '\u{017F}', '\u{0131}', '\u{0130}', 'ｑ', 'Ｑ', 'ｋ', 'Ｋ', 'ｅ', '８', '１', '٣', '\u{1E9E}', 'ǅ', 'ß'].choose(rng).unwrap();
            base.iter().enumerate().map(|(j, x)| if j == i { c } else { *x }).collect()
        }
        _ => line.split(' ').next().unwrap_or("").to_string(),
    };
    if !tok.is_ascii() { rep.count("move_tokens_non_ascii"); }
    rep.eval();
    match guarded(|| UciMove::from_str(&tok).map(|m| mv_text(&m)).map_err(|_| ())) {
        Err(pm) => rep.violation(&format!("UciMove::from_str-{}", panic_sig(&pm)), format!("UciMove::from_str({:?}) panicked: {}", tok, pm), json!({"kind":"c15-move","text":tok})),
        Ok(Ok(text)) => {
            // accepted: must be the move the text spells (first 4/5 characters); over-long tokens are unspecified
            if tok.chars().count() <= 5 && text != tok.to_ascii_lowercase() && text != tok {
                rep.violation("UciMove::from_str-misread", format!("{:?} read as {}", tok, text), json!({"kind":"c15-move","text":tok}));
            }
        }
        Ok(Err(())) => {}
    }
}

/// exhaustive move text round trip: 64 x 64 x {none, p, n, b, r, q, k}
pub fn move_round_trip(rep: &mut Report) {
    use inkayaku_core::constants::{Piece, Square};
    let promos: [Option<Piece>; 7] = [None, Some(Piece::PAWN), Some(Piece::KNIGHT), Some(Piece::BISHOP), Some(Piece::ROOK), Some(Piece::QUEEN), Some(Piece::KING)];
    for a in 0..64usize {
        for b in 0..64usize {
            for pr in promos.iter() {
                rep.eval();
                rep.count("move_round_trips");
                let (sa, sb) = (Square::from_index(a).unwrap(), Square::from_index(b).unwrap());
                let m = UciMove { source: sa, target: sb, promote_to: *pr };
                let want = format!("{}{}{}", sq_name(to_ref(a)), sq_name(to_ref(b)), pr.map_or(String::new(), |p| p.fen.to_string()));
                let r = guarded(move || {
                    let text = m.to_string();
                    let back = UciMove::from_str(&text);
                    (text, back.map(|x| x == m).unwrap_or(false))
                });
                match r {
                    Err(pm) => rep.violation(&format!("move-text-{}", panic_sig(&pm)), format!("move {} panicked: {}", want, pm), json!({"kind":"c15-move","text":want})),
                    Ok((text, same)) => {
                        if text != want { rep.violation("move-format", format!("move formatted as {:?}, expected {:?}", text, want), json!({"kind":"c15-move","text":want})); }
                        if !same { rep.violation("move-round-trip", format!("{:?} does not parse back to the same move", text), json!({"kind":"c15-move","text":want})); }
                    }
                }
                rep.distinct_str(&want);
            }
        }
    }
    rep.extra.insert("move_round_trip_exhaustive".into(), json!(true));
}

fn to_ref(engine_index: usize) -> u8 {
    ((7 - engine_index / 8) * 8 + engine_index % 8) as u8
}

pub fn replay(case: &monlib::Value, rep: &mut Report) {
    match case["kind"].as_str().unwrap_or("") {
        "c15-move" => {
            let t = case["text"].as_str().unwrap_or("").to_string();
            match guarded(|| UciMove::from_str(&t).map(|m| m.to_string()).map_err(|_| ())) {
                Err(pm) => rep.violation("UciMove::from_str-panic", pm, case.clone()),
                Ok(Ok(text)) => if text != t && t.chars().count() <= 5 && text != t.to_lowercase() { rep.violation("move-round-trip", format!("{} -> {}", t, text), case.clone()) },
                Ok(Err(())) => if Mv::from_uci(&t).is_some() { rep.violation("move-round-trip", format!("{} rejected", t), case.clone()) },
            }
        }
        _ => {
            let line = case["line"].as_str().unwrap_or("").to_string();
            match parse(&line) {
                Err(pm) => rep.violation("parse-panic", pm, case.clone()),
                Ok(Ok(got)) => if case.get("fault").map_or(false, |f| f.is_string()) { rep.violation("accepts-faulty", format!("{:?}", got), case.clone()) } else { println!("parsed: {:?}", got) },
                Ok(Err(e)) => println!("rejected: {}", e),
            }
        }
    }
}
