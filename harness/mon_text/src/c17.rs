//! C17 — the PGN stream reader returns every game completely, however input is chunked.

use std::collections::BTreeMap;
use std::io::Read;

use inkayaku_board::Bitboard;
use inkayaku_pgn::reader::PgnRawParser;
use monlib::{guarded_mut, json, panic_sig, Report};
use rand::rngs::StdRng;
use rand::seq::SliceRandom;
use rand::Rng;
use refchess::gen;
use refchess::*;

#[derive(Clone, Debug)]
pub struct Game {
    pub tags: Vec<(String, String)>,
    pub moves: Vec<String>,
    /// inner text of the braces, if any
    pub comments: Vec<Option<String>>,
    pub result: String,
    pub end_fen: String,
}

#[derive(Clone, Debug)]
pub struct Layout {
    pub final_newline: bool,
    pub blank_lines_between: usize,
}

fn clk(rng: &mut StdRng) -> String {
    format!("[%clk {}:{:02}:{:02}]", rng.gen_range(0..3), rng.gen_range(0..60), rng.gen_range(0..60))
}

pub fn random_game(rng: &mut StdRng) -> Game {
    let policy = gen::POLICIES[rng.gen_range(0..3)];
    // mostly ordinary lengths, some tiny games, and a few marathon games (move numbers beyond 255 / 300)
    let len = match rng.gen_range(0..100) { 0..=9 => rng.gen_range(0..4), 10..=12 => rng.gen_range(500..720), _ => rng.gen_range(4..160) };
    let policy = if len >= 500 { gen::Policy::Shuffle } else { policy };
    // one game in six is a from-position game ([FEN]/[SetUp] tags, as Lichess writes them) that starts
    // with two to four like pieces able to reach one square: its movetext carries file, rank and
    // full-square disambiguation, which walks from the initial position practically never reach
    let setup = if len < 500 && rng.gen_range(0..6) == 0 {
        let p = gen::disambiguation_position(rng);
        let mut p = if p.wtm { p } else { p.flip() };
        p.half = 0;
        p.full = 1;
        if p.wtm && p.is_legal_position() && !p.legal_moves().is_empty() { Some(p) } else { None }
    } else { None };
    let start = setup.clone().unwrap_or_else(Pos::startpos);
    let (ps, ms) = gen::walk(rng, &start, policy, len);
    let mut moves = Vec::new();
    for (i, m) in ms.iter().enumerate() {
        moves.push(san::san(&ps[i], *m));
    }
    let style = rng.gen_range(0..4); // 0 none, 1 clk, 2 eval+clk, 3 mixed
    let comments: Vec<Option<String>> = moves.iter().map(|_| match style {
        0 => None,
        1 => Some(format!(" {} ", clk(rng))),
        2 => Some(format!(" [%eval {}{}.{}] {} ", if rng.gen_bool(0.5) { "-" } else { "" }, rng.gen_range(0..9), rng.gen_range(0..99), clk(rng))),
        _ => match rng.gen_range(0..20) { 0 => Some(String::new()), 1 => Some(" ".into()), 11 => Some(" très fort — ♔ ".into()), 2..=10 => Some(format!(" {} ", clk(rng))), _ => None },
    }).collect();
    let last = ps.last().unwrap();
    let result = if last.is_mate() { if last.wtm { "0-1" } else { "1-0" } } else { *["1-0", "0-1", "1/2-1/2", "*"].choose(rng).unwrap() }.to_string();
    let names = ["Event", "Site", "Date", "Round", "White", "Black", "Result", "UTCDate", "UTCTime", "WhiteElo", "BlackElo", "WhiteRatingDiff", "BlackRatingDiff", "WhiteTitle", "ECO", "Opening", "TimeControl", "Termination"];
    let n_tags = rng.gen_range(7..=18);
    let mut tags = Vec::new();
    for name in names.iter().take(n_tags) {
        let v = match *name {
            "Result" => result.clone(),
            "Site" => format!("https://lichess.org/{}", (0..8).map(|_| (b'a' + rng.gen_range(0..26)) as char).collect::<String>()),
            "Event" => ["Rated Blitz game", "Rated Bullet tournament https://lichess.org/tournament/xYz12345", "Casual Correspondence game", "?"].choose(rng).unwrap().to_string(),
            "Opening" => ["Sicilian Defense: Najdorf Variation, English Attack", "Queen's Gambit Declined: 4.Nf3", "King's Indian Attack", "?", "Zukertort Opening: Kingside Fianchetto (1. Nf3 d5 2. g3)", "Grünfeld Defense: Exchange Variation", "Réti Opening", "Nimzo-Larsen Attack: Polish Variation", "Grób Opening", "Ruy López: Morphy Defense, Neo-Archangelsk Variation", "Sicilian Defense: Löwenthal Variation", "Ünlü — 名人戦 ♞"].choose(rng).unwrap().to_string(),
            "TimeControl" => ["300+0", "600+5", "-", "60+0"].choose(rng).unwrap().to_string(),
            "Date" | "UTCDate" => format!("20{:02}.{:02}.{:02}", rng.gen_range(13..24), rng.gen_range(1..13), rng.gen_range(1..29)),
            "UTCTime" => format!("{:02}:{:02}:{:02}", rng.gen_range(0..24), rng.gen_range(0..60), rng.gen_range(0..60)),
            "White" | "Black" => ["DrNykterstein", "some_user-42", "Player One", "O-O", "1-0", "a[b]c", "x {y} z", "Đorđe_Ž", "ÿ"].choose(rng).unwrap().to_string(),
            "WhiteRatingDiff" | "BlackRatingDiff" => format!("{}{}", if rng.gen_bool(0.5) { "+" } else { "-" }, rng.gen_range(0..30)),
            "Termination" => ["Normal", "Time forfeit", "Abandoned"].choose(rng).unwrap().to_string(),
            _ => rng.gen_range(800..2900).to_string(),
        };
        // a tag pair may carry an empty value (titles of untitled players, unknown events)
        let v = if *name != "Result" && rng.gen_range(0..25) == 0 { String::new() } else { v };
        tags.push((name.to_string(), v));
    }
    if let Some(p) = &setup {
        tags.push(("FEN".to_string(), p.to_fen()));
        tags.push(("SetUp".to_string(), "1".to_string()));
    }
    Game { tags, moves, comments, result, end_fen: last.to_fen() }
}

pub fn render(games: &[Game], layout: &Layout) -> String {
    let mut s = String::new();
    for (gi, g) in games.iter().enumerate() {
        for (k, v) in &g.tags {
            s.push_str(&format!("[{} \"{}\"]\n", k, v));
        }
        s.push('\n');
        let mut prev_comment = false;
        for (i, m) in g.moves.iter().enumerate() {
            if i % 2 == 0 {
                s.push_str(&format!("{}. ", i / 2 + 1));
            } else if prev_comment {
                // Lichess numbers Black's move `n...` after a comment and not otherwise
                s.push_str(&format!("{}... ", i / 2 + 1));
            }
            s.push_str(m);
            s.push(' ');
            prev_comment = false;
            if let Some(c) = &g.comments[i] {
                s.push_str(&format!("{{{}}} ", c));
                prev_comment = true;
            }
        }
        s.push_str(&g.result);
        let last = gi + 1 == games.len();
        if !last {
            s.push('\n');
            for _ in 0..layout.blank_lines_between { s.push('\n'); }
        } else if layout.final_newline {
            s.push('\n');
            if layout.blank_lines_between > 1 { s.push('\n'); }
        }
    }
    s
}

/// Readers with different fragmentation behaviour
pub struct FragReader {
    data: Vec<u8>,
    pos: usize,
    mode: u8,
    rng: StdRng,
}

impl Read for FragReader {
    fn read(&mut self, buf: &mut [u8]) -> std::io::Result<usize> {
        let left = self.data.len() - self.pos;
        if left == 0 || buf.is_empty() {
            return Ok(0);
        }
        let want = buf.len().min(left);
        let n = match self.mode {
            0 => want,
            1 => self.rng.gen_range(1..=want),
            2 => 1,
            _ => {
                // stop just before or just after the next delimiter
                let delim = |b: u8| b == b'\n' || b == b'[' || b == b'{' || b == b' ' || b == b'}' || b == b']';
                let slice = &self.data[self.pos..self.pos + want];
                match slice.iter().skip(1).position(|&b| delim(b)) {
                    Some(i) => if self.rng.gen_bool(0.5) { i + 1 } else { (i + 2).min(want) },
                    None => want,
                }
            }
        };
        buf[..n].copy_from_slice(&self.data[self.pos..self.pos + n]);
        self.pos += n;
        Ok(n)
    }
}

pub fn read_all(doc: &str, chunk: usize, mode: u8, seed: u64) -> Result<Vec<Result<(BTreeMap<String, String>, Vec<(String, Option<String>)>), String>>, String> {
    let reader = FragReader { data: doc.as_bytes().to_vec(), pos: 0, mode, rng: gen::rng(seed, chunk as u64, mode as u64) };
    guarded_mut(move || {
        let parser = PgnRawParser::with_chunk_size(reader, chunk);
        let mut out = Vec::new();
        for (i, item) in parser.enumerate() {
            if i > 10_000 { out.push(Err("iterator does not terminate".to_string())); break; }
            match item {
                Ok(raw) => out.push(Ok((raw.tag_pairs.into_iter().collect(), raw.moves.into_iter().map(|m| (m.mv, m.annotation)).collect()))),
                Err(e) => { out.push(Err(format!("{:?}", e))); if out.len() > 200 { break; } }
            }
        }
        out
    })
}

pub fn check_database(rng: &mut StdRng, rep: &mut Report, n_configs: usize) {
    let n_games = if rng.gen_bool(0.15) { 1 } else { rng.gen_range(1..=12) };
    let games: Vec<Game> = (0..n_games).map(|_| random_game(rng)).collect();
    let layout = Layout { final_newline: rng.gen_bool(0.6), blank_lines_between: rng.gen_range(1..=2) };
    let doc = render(&games, &layout);
    let len = doc.len();
    let mut chunks = vec![1usize, 2, 3, 5, 7, 8, 13, 64, 1000, 8192, len.saturating_sub(1).max(1), len, len + 1];
    chunks.shuffle(rng);
    let castles = games.iter().map(|g| g.moves.iter().filter(|m| m.starts_with("O-O")).count()).sum::<usize>();
    let black_castle_unnumbered = games.iter().any(|g| g.moves.iter().enumerate().any(|(i, m)| i % 2 == 1 && m.starts_with("O-O") && g.comments[i - 1].is_none()));
    if black_castle_unnumbered { rep.count("databases_with_unnumbered_black_castling"); }
    rep.count(&format!("layout_final_newline_{}", layout.final_newline));
    for g in &games {
        if g.tags.iter().any(|(_, v)| v.is_empty()) { rep.count("games_with_empty_tag_value"); }
        if g.tags.iter().any(|(_, v)| !v.is_ascii()) || g.comments.iter().any(|c| c.as_ref().map_or(false, |c| !c.is_ascii())) { rep.count("games_with_non_ascii_text"); }
        if g.comments.iter().any(|c| c.as_deref() == Some("")) { rep.count("games_with_empty_comment"); }
    }
    for g in &games { rep.count(&format!("result_{}", g.result)); if g.comments.iter().any(|c| c.is_some()) { rep.count("games_with_comments"); } else { rep.count("games_without_comments"); } }
    for ci in 0..n_configs {
        let chunk = chunks[ci % chunks.len()];
        let mode = (ci % 4) as u8;
        rep.eval();
        rep.count(&format!("reader_mode_{}", mode));
        let cfg_seed = rng.gen::<u64>();
        let replay = json!({"kind":"c17","document":doc,"chunk":chunk,"mode":mode,"cfg_seed":cfg_seed,"games":games.len()});
        if games.len() >= 2 && castles >= 1 { rep.distinct_hash(monlib::mix(monlib::fnv(doc.as_bytes()), (chunk as u64) << 8 | mode as u64)); }
        let got = match read_all(&doc, chunk, mode, cfg_seed) {
            Err(pm) => { rep.violation(&format!("reader-{}", panic_sig(&pm)), format!("reader panicked (chunk {}, mode {}): {}", chunk, mode, pm), replay); continue; }
            Ok(g) => g,
        };
        if let Some(v) = compare(&games, &got) {
            rep.violation(&v.0, format!("chunk {} mode {} ({} games, final newline {}): {}", chunk, mode, games.len(), layout.final_newline, v.1), replay);
            break;
        }
        // replay through the board
        if ci == 0 {
            for (gi, g) in games.iter().enumerate() {
                if let Some(Ok((tags_read, mv))) = got.get(gi) {
                    if tags_read.contains_key("FEN") { rep.count("games_from_setup_position"); }
                    for (san, _) in mv.iter() {
                        let body = san.trim_start_matches(|c: char| "NBRQK".contains(c));
                        let hints = body.trim_end_matches(|c| c == '+' || c == '#').chars().filter(|c| c.is_ascii_lowercase() && *c != 'x').count() + body.chars().filter(|c| c.is_ascii_digit()).count();
                        if san.starts_with(|c: char| "NBRQ".contains(c)) && hints >= 4 { rep.count("replayed_moves_with_full_square_disambiguation"); }
                    }
                    let r = guarded_mut(|| {
                        let mut bb = match tags_read.get("FEN") {
                            Some(f) => Bitboard::from_fen_string(f).map_err(|e| format!("[FEN \"{}\"] not accepted: {:?}", f, e))?,
                            None => Bitboard::default(),
                        };
                        for (k, (san, _)) in mv.iter().enumerate() {
                            match bb.pgn_to_bb(san) { Ok(m) => bb.make(m), Err(_) => return Err(format!("move {} {:?} not accepted", k, san)) }
                        }
                        Ok(inkayaku_core::fen::Fen::from(&bb).fen)
                    });
                    rep.eval();
                    rep.count("games_replayed_on_board");
                    match r {
                        Err(pm) => rep.violation(&format!("board-replay-{}", panic_sig(&pm)), format!("board replay of game {} panicked: {}", gi, pm), json!({"kind":"c17","document":doc,"chunk":chunk,"mode":mode,"cfg_seed":cfg_seed})),
                        Ok(Err(e)) => rep.violation("board-replay-rejects-move", format!("game {}: {}", gi, e), json!({"kind":"c17","document":doc,"chunk":chunk,"mode":mode,"cfg_seed":cfg_seed})),
                        Ok(Ok(f)) => if f != g.end_fen { rep.violation("board-replay-end-position", format!("game {} ends in {} expected {}", gi, f, g.end_fen), json!({"kind":"c17","document":doc,"chunk":chunk,"mode":mode,"cfg_seed":cfg_seed})); }
                    }
                }
            }
        }
    }
    rep.max("max_games_per_database", games.len() as u64);
    for g in &games { rep.max("max_moves_in_a_game", g.moves.len() as u64); if g.moves.len() >= 512 { rep.count("games_with_256_or_more_full_moves"); } }
    rep.add("games", games.len() as u64);
    rep.add("castling_moves", castles as u64);
    if rep.samples.len() < 3 && games.len() >= 2 && len < 1500 {
        rep.sample(json!({"document": doc, "chunk_sizes": chunks.iter().take(n_configs).collect::<Vec<_>>()}));
    }
}

type Got = Vec<Result<(BTreeMap<String, String>, Vec<(String, Option<String>)>), String>>;

pub fn compare(games: &[Game], got: &Got) -> Option<(String, String)> {
    if let Some((i, Err(e))) = got.iter().enumerate().find(|(_, g)| g.is_err()) {
        let kind: String = e.split(|c: char| !c.is_alphanumeric()).next().unwrap_or("").to_string();
        return Some((format!("reader-error-item:{}", kind), format!("item {} is Err({})", i, e)));
    }
    if got.len() != games.len() {
        return Some((format!("game-count:{}", if got.len() < games.len() { "fewer" } else { "more" }), format!("{} games yielded, {} written", got.len(), games.len())));
    }
    for (gi, (g, r)) in games.iter().zip(got.iter()).enumerate() {
        let (tags, moves) = r.as_ref().unwrap();
        let want_tags: BTreeMap<String, String> = g.tags.iter().cloned().collect();
        if &want_tags != tags {
            return Some(("tags-differ".into(), format!("game {}: tags {:?} expected {:?}", gi, tags, want_tags).chars().take(500).collect()));
        }
        let got_moves: Vec<&String> = moves.iter().map(|m| &m.0).collect();
        let want_moves: Vec<&String> = g.moves.iter().collect();
        if got_moves != want_moves {
            let at = got_moves.iter().zip(want_moves.iter()).position(|(a, b)| a != b).unwrap_or(got_moves.len().min(want_moves.len()));
            return Some((format!("moves-differ:{}", if got_moves.len() < want_moves.len() { "truncated" } else if got_moves.len() > want_moves.len() { "extra" } else { "text" }), format!("game {}: {} moves yielded, {} written; first difference at {}: {:?} vs {:?}", gi, got_moves.len(), want_moves.len(), at, got_moves.get(at), want_moves.get(at))));
        }
        for (i, (m, c)) in moves.iter().zip(g.comments.iter()).enumerate() {
            if &m.1 != c {
                return Some(("comment-differs".into(), format!("game {} move {}: comment {:?} expected {:?}", gi, i, m.1, c)));
            }
        }
    }
    None
}

pub fn replay(case: &monlib::Value, rep: &mut Report) {
    let doc = case["document"].as_str().unwrap_or("").to_string();
    let chunk = case["chunk"].as_u64().unwrap_or(8192) as usize;
    let mode = case["mode"].as_u64().unwrap_or(0) as u8;
    let seed = case["cfg_seed"].as_u64().unwrap_or(0);
    // the document is the ground truth: compare with the reading at the default configuration and
    // report structural problems (errors, panics); game count from the replay file
    match read_all(&doc, chunk, mode, seed) {
        Err(pm) => rep.violation("reader-panic", pm, case.clone()),
        Ok(got) => {
            let errs = got.iter().filter(|g| g.is_err()).count();
            let want = case["games"].as_u64().unwrap_or(got.len() as u64) as usize;
            println!("{} items, {} errors, {} games written", got.len(), errs, want);
            if errs > 0 || got.len() != want { rep.violation("reader-differs", format!("{} items, {} errors, {} written", got.len(), errs, want), case.clone()); }
        }
    }
}
