//! mon_text — monitors for C15 (UCI parser) and C17 (PGN reader).

mod c15;
mod c17;
mod strgen;

use monlib::{json, Args, Report};
use refchess::gen;

fn main() {
    let args = Args::parse();
    monlib::quiet_panics();
    let prop = args.cmd.clone();
    let mut rep = Report::new(&prop.to_uppercase());
    if let Some(path) = &args.replay {
        let case = monlib::read_replay(path);
        let case = if case.get("case").is_some() { case["case"].clone() } else { case };
        match prop.as_str() {
            "c15" => c15::replay(&case, &mut rep),
            "c17" => c17::replay(&case, &mut rep),
            _ => panic!("unknown"),
        }
        println!("replay: {} violation(s)", rep.violation_count);
        for v in &rep.violations { println!("  {} :: {}", v.sig, v.detail); }
        std::process::exit(if rep.violation_count > 0 { 1 } else { 0 });
    }
    let mut rng = gen::rng(args.seed, args.shard, 15);
    match prop.as_str() {
        "c15" => {
            let mut starts = gen::Starts::new(4095, 30000, args.shard as usize * 5);
            let n = args.budget(2_000_000, 40_000_000) / args.nshards.max(1);
            for i in 0..n {
                match i % 4 {
                    0 | 1 => c15::positive(&mut rng, &mut starts, &mut rep),
                    2 => c15::negative(&mut rng, &mut starts, &mut rep),
                    _ => c15::fuzz(&mut rng, &mut starts, &mut rep),
                }
            }
            if args.shard == 0 {
                c15::move_round_trip(&mut rep);
            }
        }
        "c17" => {
            let n = args.budget(16_000, 400_000) / args.nshards.max(1);
            let cfgs = if args.thorough { 40 } else { 20 };
            for _ in 0..n {
                c17::check_database(&mut rng, &mut rep, cfgs);
            }
        }
        other => {
            eprintln!("unknown monitor {:?}", other);
            std::process::exit(2);
        }
    }
    rep.extra.insert("seed".into(), json!(args.seed));
    rep.finish(&args);
}
